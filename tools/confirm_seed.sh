#!/bin/bash
# usage: confirm_seed.sh <seed dir containing patch.diff demo_test.go meta.json> <id>
# Confirms in a scratch worktree: builds with the change, baseline suite unchanged, demo fails with / passes without.
set -u
export GOFLAGS=-mod=mod GOPROXY=off
src=$1; id=$2
wt=/tmp/confirm_$id
git -C /repo worktree remove --force $wt 2>/dev/null
git -C /repo worktree add -q --detach $wt HEAD || exit 2
pkg=$(python3 -c "import json;print(json.load(open('$src/meta.json'))['package_dir'])")
pkg=${pkg#./}
res="ok"
( cd $wt && git apply $src/patch.diff ) || res="patch-does-not-apply"
if [ "$res" = ok ]; then
  ( cd $wt && go build ./... ) || res="build-fails"
fi
if [ "$res" = ok ]; then
  python3 /verif/tools/baseline.py $wt > /tmp/confirm_$id.base 2>&1 || res="baseline-broken"
  tail -3 /tmp/confirm_$id.base
fi
if [ "$res" = ok ]; then
  cp $src/demo_test.go $wt/$pkg/zz_seed_demo_test.go
  ( cd $wt && go test -vet=off -count=1 -timeout 300s -run 'Test' ./$pkg/ > /tmp/confirm_$id.with 2>&1 ); with=$?
  # only our demo: run by file-specific test names
  names=$(grep -oE '^func (Test[A-Za-z0-9_]+)' $src/demo_test.go | awk '{print $2}' | paste -sd'|')
  ( cd $wt && go test -vet=off -count=1 -timeout 300s -run "^($names)\$" ./$pkg/ > /tmp/confirm_$id.with 2>&1 ); with=$?
  ( cd $wt && git apply -R $src/patch.diff )
  ( cd $wt && go test -vet=off -count=1 -timeout 300s -run "^($names)\$" ./$pkg/ > /tmp/confirm_$id.without 2>&1 ); without=$?
  if [ $with -eq 0 ]; then res="demo-passes-with-change"; fi
  if [ $without -ne 0 ]; then res="demo-fails-without-change"; fi
fi
echo "CONFIRM $id: $res (pkg=$pkg)"
git -C /repo worktree remove --force $wt
[ "$res" = ok ]
