#!/bin/bash
# usage: mutp.sh <patch.diff> <pkg> [vgo verify args...] — like mut.sh but applies a patch file to the scratch copy.
export GOFLAGS=-mod=mod GOPROXY=off
wt=/tmp/mutp_$$; P=$(realpath $1)
mkdir -p $wt && rsync -a --exclude .git /repo/ $wt/
(cd $wt && patch -p1 -s < $P) || { echo "patch failed"; rm -rf $wt; exit 2; }
shift; pkg=$1; shift
timeout 1500 /verif/bin/vgo verify --repo $wt "$@" $pkg 2>&1 | grep -v "^   note" | tail -30
rm -rf $wt
