#!/usr/bin/env python3
"""Run the repository test suite (guard off) and compare with BASELINE.json's stable_pass list.
usage: baseline.py [repo_dir]   exit 0 iff every stable_pass test passes."""
import json, subprocess, sys, os
repo = sys.argv[1] if len(sys.argv) > 1 else "/repo"
base = json.load(open("/root/.vp/BASELINE.json"))
want = set(base["stable_pass"])
env = dict(os.environ, GOFLAGS="-mod=mod", GOPROXY="off")
p = subprocess.run(["go", "test", "-json", "-vet=off", "-count=1", "-timeout", "25m", "./..."], cwd=repo, env=env, capture_output=True, text=True)
passed = set()
failed = set()
for line in p.stdout.splitlines():
    try:
        ev = json.loads(line)
    except Exception:
        continue
    if "Test" not in ev:
        continue
    k = ev["Package"] + "::" + ev["Test"]
    if ev["Action"] == "pass":
        passed.add(k)
    elif ev["Action"] == "fail":
        failed.add(k)
missing = sorted(want - passed)
print(f"baseline: {len(want & passed)}/{len(want)} stable tests pass; {len(failed)} failing tests overall ({len(failed & want)} of them in the stable set)")
for m in missing[:40]:
    print("  MISSING/FAILED:", m)
sys.exit(1 if missing else 0)
