#!/bin/bash
# usage: mut.sh <file-relative-to-repo> <sed-expr> <pkg> [vgo verify args...]
# Applies a sed mutation to a scratch copy of /repo's working tree and runs `vgo verify` on it (must-fail sanity tests).
export GOFLAGS=-mod=mod GOPROXY=off
wt=/tmp/mut_$$
mkdir -p $wt && rsync -a --exclude .git /repo/ $wt/
sed -i -E "$2" $wt/$1
(cd $wt && diff -u /repo/$1 $1 | head -20)
f=$1; shift; shift; pkg=$1; shift
timeout 900 /verif/bin/vgo verify --repo $wt "$@" $pkg 2>&1 | grep -v "^   note" | tail -25
rm -rf $wt
