#!/bin/bash
# usage: run_seeds.sh <seed-id>...   (ids under /verif/seeded, e.g. C09-m1). Runs the property's quick check against a
# scratch worktree of /repo with the seeded change applied. Nothing in /repo or /verif/evidence is touched.
export GOFLAGS=-mod=mod GOPROXY=off
mkdir -p /tmp/seedroot && cp -r /verif/replay /verif/lemmas /verif/bounded /verif/known_findings.json /verif/unclaimed.json /tmp/seedroot/ 2>/dev/null
for id in "$@"; do
  d=/verif/seeded/$id
  prop=${id%%-*}
  wt=/tmp/wt_$id
  git -C /repo worktree remove --force $wt 2>/dev/null
  git -C /repo worktree add -q --detach $wt HEAD || continue
  # uncommitted contract edits in /repo are part of the machinery: copy them over
  (cd /repo && git diff) | (cd $wt && git apply 2>/dev/null)
  (cd /repo && git ls-files -o --exclude-standard) | while read f; do mkdir -p $wt/$(dirname $f); cp /repo/$f $wt/$f; done
  if ! (cd $wt && git apply -C1 $d/patch.diff 2>/dev/null); then echo "SEED $id: patch does not apply"; git -C /repo worktree remove --force $wt; continue; fi
  out=$(VERIF_ROOT=/tmp/seedroot timeout 1500 /verif/bin/vgo check --repo $wt --property $prop 2>&1)
  rc=$?
  echo "SEED $id: exit=$rc"
  echo "$out" | grep -E "FAILED-OBLIGATION|ENGINE-ERROR|SPEC-ERROR|VACUOUS|^property" | cut -c1-220 | sed 's/^/    /'
  git -C /repo worktree remove --force $wt
done
