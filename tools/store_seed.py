#!/usr/bin/env python3
"""store_seed.py <src dir> <seed id> <detected-by text>: copy a confirmed seeded change into /verif/seeded/<id>/."""
import sys, json, shutil, os
src, sid, det = sys.argv[1], sys.argv[2], sys.argv[3]
dst = f"/verif/seeded/{sid}"
os.makedirs(dst, exist_ok=True)
for f in ("patch.diff", "demo_test.go"):
    shutil.copy(os.path.join(src, f), os.path.join(dst, f))
m = json.load(open(os.path.join(src, "meta.json")))
m["confirmed"] = "tools/confirm_seed.sh in a scratch worktree of /repo HEAD: builds; all 252 baseline tests still pass; demo fails with the change and passes without it"
m["detected_by"] = det
json.dump(m, open(os.path.join(dst, "meta.json"), "w"), indent=1)
print("stored", dst)
