#!/usr/bin/env python3
"""update_design.py: splice /verif/design/section0.md (+ generated tables) into /verif/DESIGN.md between the
markers <!-- SECTION0-BEGIN --> and <!-- SECTION0-END --> (inserted before '## 1. Summary' on first use)."""
import json, glob, os, re

root = "/verif"
design = open(f"{root}/DESIGN.md").read()
sec0 = open(f"{root}/design/section0.md").read()

# ---- seeded changes table
rows = []
for d in sorted(glob.glob(f"{root}/seeded/*/")):
    sid = os.path.basename(d.rstrip("/"))
    try:
        m = json.load(open(d + "meta.json"))
    except Exception:
        continue
    what = re.sub(r"\s+", " ", m.get("what", "")).strip()
    if len(what) > 150:
        what = what[:147] + "..."
    det = re.sub(r"\s+", " ", m.get("detected_by", "pending")).strip()
    rows.append(f"| {sid} | {what} | {det} |")
seed_table = "| seed | change | caught by |\n|---|---|---|\n" + "\n".join(rows)

# ---- findings table
kf = json.load(open(f"{root}/known_findings.json"))
frows = []
for f in kf["findings"]:
    what = re.sub(r"\s+", " ", f["what"]).strip()
    frows.append(f"| {f['id']} | {f['property']} | {f['status']} {f.get('commit','')} | {f['function']} / {f['obligation']} | {what} |")
find_table = "| id | property | status | function / obligation | what |\n|---|---|---|---|---|\n" + "\n".join(frows)

# ---- manifest summary
man = json.load(open(f"{root}/MANIFEST.json"))
mrows = []
for c in man["checks"]:
    mrows.append(f"| {c['property_id']} | {c['level_claimed']['category']} | {re.sub(chr(10), ' ', c['level_note'])[:220]} |")
for n in man.get("not_applicable", []):
    mrows.append(f"| {n['property_id']} | not applicable | {n['reason'][:220]} |")
mrows.sort()
man_table = "| property | level | note |\n|---|---|---|\n" + "\n".join(mrows)

sec0 = sec0.replace("{{SEED_TABLE}}", seed_table).replace("{{FINDINGS_TABLE}}", find_table).replace("{{MANIFEST_TABLE}}", man_table)
block = "<!-- SECTION0-BEGIN -->\n" + sec0 + "\n<!-- SECTION0-END -->\n\n"
if "<!-- SECTION0-BEGIN -->" in design:
    design = re.sub(r"<!-- SECTION0-BEGIN -->.*?<!-- SECTION0-END -->\n\n", lambda _: block, design, flags=re.S)
else:
    design = design.replace("## 1. Summary", block + "## 1. Summary", 1)
open(f"{root}/DESIGN.md", "w").write(design)
print("DESIGN.md updated:", len(design), "bytes")
