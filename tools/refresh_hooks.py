#!/usr/bin/env python3
"""refresh_hooks.py: rewrite MANIFEST.hooks.source_commits from /repo's history (every commit whose subject starts with
"verif hook:"), oldest first, and check that each of them touches only zz_verif_contracts.go files."""
import json, subprocess
out = subprocess.run(["git", "-C", "/repo", "log", "--reverse", "--format=%h %s"], capture_output=True, text=True).stdout
commits = [l.split()[0] for l in out.splitlines() if l.split(" ", 1)[1].startswith("verif hook:")]
bad = []
for c in commits:
    files = subprocess.run(["git", "-C", "/repo", "show", "--name-only", "--format=", c], capture_output=True, text=True).stdout.split()
    if any(not f.endswith("zz_verif_contracts.go") and not f.endswith("zz_verif_lemmas.go") for f in files):
        bad.append((c, files))
m = json.load(open("/verif/MANIFEST.json"))
m["hooks"]["source_commits"] = commits
json.dump(m, open("/verif/MANIFEST.json", "w"), indent=1)
print(len(commits), "hook commits;", "non-hook files touched:", bad)
