// replay: package=filesystem/ext4
// finding: D51  property: C18
// obligations: ext4.parseDirectoryTreeRoot/bounds#40.., ext4.parseDirectoryTreeNode/bounds#7.., ext4.parseDirEntriesHashed/bounds#2
// A hashed (htree) directory starts with an index: a 16-bit count of index entries, then (hash, block) pairs. The root and
// node parsers read `count` entries without comparing the count with the block they were given, and the walker sliced the
// directory by the block numbers of the entries (times the block size, in 32 bits) without comparing them with the length
// of the directory: a damaged count or block number panicked.
package ext4

import (
	"encoding/binary"
	"testing"
)

func verifD51Root(count uint16, block uint32) []byte {
	b := make([]byte, 1024)
	binary.LittleEndian.PutUint32(b[0:4], 2)
	binary.LittleEndian.PutUint16(b[4:6], 12)
	b[6], b[7], b[8] = 1, byte(dirFileTypeDirectory), '.'
	binary.LittleEndian.PutUint32(b[0xc:0x10], 2)
	binary.LittleEndian.PutUint16(b[0x10:0x12], 1012)
	b[0x12], b[0x13], b[0x14], b[0x15] = 2, byte(dirFileTypeDirectory), '.', '.'
	b[0x1c], b[0x1d], b[0x1e] = 1, 8, 0
	binary.LittleEndian.PutUint16(b[0x20:0x22], 123)
	binary.LittleEndian.PutUint16(b[0x22:0x24], count)
	binary.LittleEndian.PutUint32(b[0x24:0x28], block)
	return b
}

func TestVerifReplay_D51(t *testing.T) {
	noPanic := func(what string, f func()) {
		defer func() {
			if r := recover(); r != nil {
				t.Errorf("VIOLATION C18: %s panicked: %v", what, r)
			}
		}()
		f()
	}
	noPanic("parseDirectoryTreeRoot with an entry count of 60000 in a 1024-byte block", func() {
		_, _ = parseDirectoryTreeRoot(verifD51Root(60000, 1), false)
	})
	noPanic("parseDirectoryTreeNode with an entry count of 60000 in a 1024-byte block", func() {
		b := make([]byte, 1024)
		binary.LittleEndian.PutUint16(b[0xa:0xc], 60000)
		_, _ = parseDirectoryTreeNode(b)
	})
	noPanic("parseDirEntriesHashed with an index entry naming block 9 of a two-block directory", func() {
		dir := append(verifD51Root(1, 9), make([]byte, 1024)...)
		root, err := parseDirectoryTreeRoot(dir[:1024], false)
		if err != nil {
			t.Skipf("the base block of this replay is not accepted (%v): the case proves nothing", err)
		}
		_, _ = parseDirEntriesHashed(dir, root.depth, root, 1024, false, 2, 0, 0)
	})
}
