// replay: package=filesystem/ext4
// finding: D10  property: C10 (also C04)
// obligations: ext4.(*File).Read/alloc#1 (makeslice with a negative length), ext4.(*File).Read/nil#3, ext4.(*File).Seek/nil#3 (closed handle)
// (a) The extent whose last block is exactly the block before the read position is not skipped (`<` instead of `<=`): with two
//     extents {0,4},{4,4} of 1 KiB blocks, size 8000 and offset 5000 the first extent yields a negative byte count.
// (b) Close() zeroes the handle; Read and Seek(SeekEnd) then dereference the nil inode instead of returning an error.
package ext4

import (
	"io"
	"testing"
)

type verifZeroes struct{}

func (verifZeroes) ReadAt(p []byte, off int64) (int, error) { return len(p), nil }

func TestVerifReplay_D10(t *testing.T) {
	mk := func() *File {
		return &File{
			inode:      &inode{size: 8000},
			filesystem: &FileSystem{superblock: &superblock{blockSize: 1024}, backend: verifStorage{verifFile{verifZeroes{}}}},
			extents:    extents{{fileBlock: 0, startingBlock: 100, count: 4}, {fileBlock: 4, startingBlock: 200, count: 4}},
		}
	}
	func() {
		defer func() {
			if r := recover(); r != nil {
				t.Errorf("VIOLATION C10: Read at an unaligned offset behind an extent boundary panicked: %v", r)
			}
		}()
		fl := mk()
		fl.offset = 5000
		n, err := fl.Read(make([]byte, 100))
		if n != 100 || err != nil {
			t.Errorf("VIOLATION C10: Read = (%d, %v), want (100, nil)", n, err)
		}
	}()
	func() {
		defer func() {
			if r := recover(); r != nil {
				t.Errorf("VIOLATION C10: Read after Close panicked instead of failing: %v", r)
			}
		}()
		fl := mk()
		_ = fl.Close()
		if n, err := fl.Read(make([]byte, 10)); err == nil || n != 0 {
			t.Errorf("VIOLATION C10: Read after Close = (%d, %v)", n, err)
		}
	}()
	func() {
		defer func() {
			if r := recover(); r != nil {
				t.Errorf("VIOLATION C10: Seek after Close panicked instead of failing: %v", r)
			}
		}()
		fl := mk()
		_ = fl.Close()
		if _, err := fl.Seek(0, io.SeekEnd); err == nil {
			t.Errorf("VIOLATION C10: Seek after Close succeeded")
		}
	}()
}
