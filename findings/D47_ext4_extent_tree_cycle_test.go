// replay: package=filesystem/ext4
// finding: D47  property: C18
// obligation: termination of ext4.extentInternalNode.blocks / findBlocks (variant: the depth of the node)
// An index node of an extent tree names the blocks of its children; each child block carries its own depth field. The
// walkers read a child, parsed it and recursed into it without comparing its depth with the parent's: an index block
// that names itself (or any cycle of index blocks) is walked forever - in Go that ends in a fatal stack overflow that
// cannot be recovered. The replay lets the device fail after 5000 reads so that the recursion unwinds.
package ext4

import (
	"encoding/binary"
	"errors"
	"testing"
)

type verifD47Backend struct {
	verifStorage
	mem   *verifMem
	reads *int
}

func (b verifD47Backend) ReadAt(p []byte, off int64) (int, error) {
	*b.reads++
	if *b.reads > 5000 {
		return 0, errors.New("replay: device stopped answering after 5000 reads")
	}
	return b.mem.ReadAt(p, off)
}

func TestVerifReplay_D47(t *testing.T) {
	const blockSize = 1024
	mem := &verifMem{Data: make([]byte, 64*blockSize)}
	// block 5: an index node (depth 1) whose only child is block 5
	node := mem.Data[5*blockSize:]
	binary.LittleEndian.PutUint16(node[0:2], extentHeaderSignature)
	binary.LittleEndian.PutUint16(node[2:4], 1) // entries
	binary.LittleEndian.PutUint16(node[4:6], 84)
	binary.LittleEndian.PutUint16(node[6:8], 1)   // depth
	binary.LittleEndian.PutUint32(node[12:16], 0) // first file block
	binary.LittleEndian.PutUint32(node[16:20], 5) // child block, low 32 bits
	for _, walk := range []string{"blocks", "findBlocks"} {
		reads := 0
		fs := &FileSystem{superblock: &superblock{blockSize: blockSize}, backend: verifD47Backend{mem: mem, reads: &reads}}
		root := &extentInternalNode{
			extentNodeHeader: extentNodeHeader{depth: 2, entries: 1, max: 4, blockSize: blockSize},
			children:         []*extentChildPtr{{fileBlock: 0, count: 100, diskBlock: 5}},
		}
		var err error
		if walk == "blocks" {
			_, err = root.blocks(fs)
		} else {
			_, err = root.findBlocks(0, 10, fs)
		}
		if reads > 64 {
			t.Errorf("VIOLATION C18: %s followed an index block that names itself %d times (err=%v): without the replay's read limit the recursion ends in a fatal stack overflow", walk, reads-1, err)
		}
	}
}
