// replay: package=partition/mbr
// finding: D2  property: C13
// obligations: mbr.(*Partition).ReadContents/post#exact (and the gpt twin)
// With physical sector 4096 and logical sector 512, a one-sector partition is 512 bytes; ReadContents reads a whole
// 4096-byte chunk and hands all of it to the writer: 4096 bytes are "the partition's bytes".
package mbr

import (
	"bytes"
	"testing"
)

type verifZeroDev struct{}

func (verifZeroDev) ReadAt(p []byte, off int64) (int, error) { return len(p), nil }

func TestVerifReplay_D2(t *testing.T) {
	p := &Partition{Start: 8, Size: 1, logicalSectorSize: 512, physicalSectorSize: 4096}
	var out bytes.Buffer
	n, err := p.ReadContents(verifFile{verifZeroDev{}}, &out)
	if err != nil {
		t.Fatal(err)
	}
	if n != p.GetSize() || int64(out.Len()) != p.GetSize() {
		t.Errorf("VIOLATION C13: ReadContents returned %d bytes (writer got %d) for a partition of %d bytes", n, out.Len(), p.GetSize())
	}
}
