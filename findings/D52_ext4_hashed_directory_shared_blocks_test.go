// replay: package=filesystem/ext4
// finding: D52  property: C18
// obligation: allocation/time bound of ext4.parseDirEntriesHashed (every block of the directory is parsed at most once)
// The index of a hashed directory is a tree over the blocks of the directory. The walker followed every (hash, block) entry
// without remembering which blocks it had parsed: index entries that all name the same block make it parse that block
// once per entry, at every level. A directory of three 1 KiB blocks (a root and a node whose entries all name the next
// block) yields 124 x 126 copies of the 85 entries of its only leaf: 1.3 million entries from 3 KiB, and with the 508
// entries per 4 KiB block and three levels the product no longer fits in memory.
package ext4

import (
	"encoding/binary"
	"testing"
)

func TestVerifReplay_D52(t *testing.T) {
	const bs = 1024
	dir := make([]byte, 3*bs)
	// block 0: root, depth 1, 124 entries, all naming block 1
	root := dir[0:bs]
	binary.LittleEndian.PutUint32(root[0:4], 2)
	binary.LittleEndian.PutUint16(root[4:6], 12)
	root[6], root[7], root[8] = 1, byte(dirFileTypeDirectory), '.'
	binary.LittleEndian.PutUint32(root[0xc:0x10], 2)
	binary.LittleEndian.PutUint16(root[0x10:0x12], 1012)
	root[0x12], root[0x13], root[0x14], root[0x15] = 2, byte(dirFileTypeDirectory), '.', '.'
	root[0x1c], root[0x1d], root[0x1e] = 1, 8, 1
	binary.LittleEndian.PutUint16(root[0x20:0x22], 124)
	binary.LittleEndian.PutUint16(root[0x22:0x24], 124)
	binary.LittleEndian.PutUint32(root[0x24:0x28], 1)
	for i := 0; i < 123; i++ {
		binary.LittleEndian.PutUint32(root[0x28+i*8+4:], 1)
	}
	// block 1: node, 126 entries, all naming block 2
	node := dir[bs : 2*bs]
	binary.LittleEndian.PutUint16(node[4:6], bs)
	binary.LittleEndian.PutUint16(node[0x8:0xa], 126)
	binary.LittleEndian.PutUint16(node[0xa:0xc], 126)
	binary.LittleEndian.PutUint32(node[0xc:0x10], 2)
	for i := 0; i < 125; i++ {
		binary.LittleEndian.PutUint32(node[0x10+i*8+4:], 2)
	}
	// block 2: a leaf with 85 entries
	leaf := dir[2*bs:]
	for i := 0; i < 85; i++ {
		e := leaf[i*12:]
		binary.LittleEndian.PutUint32(e[0:4], uint32(100+i))
		l := uint16(12)
		if i == 84 {
			l = bs - 84*12
		}
		binary.LittleEndian.PutUint16(e[4:6], l)
		e[6], e[7] = 2, byte(dirFileTypeRegular)
		e[8], e[9] = 'a'+byte(i%26), 'a'+byte(i/26)
	}
	treeRoot, err := parseDirectoryTreeRoot(dir[:bs], false)
	if err != nil {
		t.Skipf("the base directory of this replay is not accepted (%v): the case proves nothing", err)
	}
	entries, err := parseDirEntriesHashed(dir, treeRoot.depth, treeRoot, bs, false, 2, 0, 0)
	if err == nil && len(entries) > len(dir)/12 {
		t.Errorf("VIOLATION C18: a hashed directory of %d bytes (at most %d entries) was expanded to %d entries: its blocks were parsed once per index entry naming them", len(dir), len(dir)/12, len(entries))
	}
}
