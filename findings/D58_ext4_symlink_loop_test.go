// replay: package=filesystem/ext4
// finding: D58  property: C18
// obligation: termination of ext4.(*FileSystem).OpenFile on symbolic links (variant: number of links followed)
// OpenFile resolves a symbolic link by calling itself on the target, without counting. A link that names itself - which
// the library's own Symlink creates without complaint - recurses until the goroutine stack is exhausted, a fatal error
// that cannot be recovered. The replay bounds the recursion by letting the device fail after 20000 reads.
package ext4

import (
	"errors"
	"os"
	"testing"

	"github.com/diskfs/go-diskfs/backend"
	"github.com/diskfs/go-diskfs/backend/file"
)

type verifD58Backend struct {
	backend.Storage
	reads *int
}

func (b verifD58Backend) ReadAt(p []byte, off int64) (int, error) {
	*b.reads++
	if *b.reads > 20000 {
		return 0, errors.New("replay: device stopped answering after 20000 reads")
	}
	return b.Storage.ReadAt(p, off)
}

func TestVerifReplay_D58(t *testing.T) {
	f, err := os.CreateTemp("", "ext4")
	if err != nil {
		t.Fatal(err)
	}
	defer os.Remove(f.Name())
	const size = 16 << 20
	_ = f.Truncate(size)
	fs, err := Create(file.New(f, false), size, 0, 512, &Params{})
	if err != nil {
		t.Skipf("cannot create the base image of this replay: %v", err)
	}
	if err := fs.Symlink("loop", "loop"); err != nil {
		t.Skipf("cannot create the symbolic link of this replay: %v", err)
	}
	reads := 0
	rfs, err := Read(verifD58Backend{Storage: file.New(f, true), reads: &reads}, size, 0, 512)
	if err != nil {
		t.Skipf("cannot open the base image of this replay: %v", err)
	}
	reads = 0
	_, err = rfs.OpenFile("loop", os.O_RDONLY)
	if reads > 2000 {
		t.Errorf("VIOLATION C18: opening a symbolic link that names itself read the device %d times (err=%v): without the replay's read limit the recursion ends in a fatal stack overflow", reads, err)
	} else if err == nil {
		t.Errorf("VIOLATION C18: opening a symbolic link that names itself returned no error")
	}
}
