// replay: package=filesystem/iso9660
// finding: D54  property: C18
// obligation: iso9660.(*pathTable).getLocation/bounds (pathtable.go: pt.records[0])
// Listing the root directory of an image without Rock Ridge looks the path up in the path table and takes the first
// record for "/". The table is decoded from the image; a path table size of zero in the volume descriptor, or a table that
// starts with a zero byte, decodes to no records, and getLocation indexed record 0 of the empty table.
package iso9660

import "testing"

func TestVerifReplay_D54(t *testing.T) {
	for _, table := range [][]byte{nil, make([]byte, 10)} {
		pt := parsePathTable(table)
		func() {
			defer func() {
				if r := recover(); r != nil {
					t.Errorf("VIOLATION C18: looking up / in the path table decoded from %d bytes panicked: %v", len(table), r)
				}
			}()
			if loc := pt.getLocation("/"); loc != 0 {
				t.Errorf("VIOLATION C18: an empty path table located / at block %d", loc)
			}
		}()
	}
}
