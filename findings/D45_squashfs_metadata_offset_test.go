// replay: package=filesystem/squashfs
// finding: D45  property: C18
// obligation: squashfs.(*FileSystem).readMetadata/bounds#1 (metadatablock.go: m[byteOffset:])
// Inode and directory references are (metadata block, offset in block) pairs stored in the image. readMetadata sliced the
// first block by the offset without looking at the length of the block: an offset field larger than the block it points
// into (any damaged inode reference, directory start offset or root inode reference) panicked.
package squashfs

import (
	"encoding/binary"
	"testing"
)

func TestVerifReplay_D45(t *testing.T) {
	defer func() {
		if r := recover(); r != nil {
			t.Errorf("VIOLATION C18: readMetadata panicked on an offset beyond the metadata block: %v", r)
		}
	}()
	// one uncompressed metadata block of 100 bytes at the start of the device
	mem := &verifMem{Data: make([]byte, 4096)}
	binary.LittleEndian.PutUint16(mem.Data[0:2], 0x8000|100)
	fs := &FileSystem{superblock: &superblock{blocksize: 4096}, backend: verifDisk{mem}, cache: newLRU(4)}
	if _, err := fs.readMetadata(mem, nil, 0, 0, 8000, 10); err == nil {
		t.Errorf("VIOLATION C18: readMetadata returned data from offset 8000 of a 100-byte metadata block")
	}
}
