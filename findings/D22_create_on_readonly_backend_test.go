// replay: package=filesystem/squashfs
// finding: D22  property: C11
// obligation: squashfs.Create/post#ro, iso9660.Create/post#ro (and disk.(*Disk).CreateFilesystem/post#ro through them)
// A disk opened read-only must reject CreateFilesystem. The FAT filesystems ask the backend for a writer first and fail;
// iso9660.Create and squashfs.Create never asked, so CreateFilesystem on a read-only disk "succeeded" and handed back a
// workspace filesystem whose Finalize could only fail later.
package squashfs

import (
	"os"
	"testing"

	"github.com/diskfs/go-diskfs/backend/file"
)

func TestVerifReplay_D22(t *testing.T) {
	f, err := os.CreateTemp("", "verif_d22")
	if err != nil {
		t.Fatal(err)
	}
	defer os.Remove(f.Name())
	defer f.Close()
	if err := f.Truncate(1 << 20); err != nil {
		t.Fatal(err)
	}
	fs, err := Create(file.New(f, true), 0, 0, 4096)
	if err == nil {
		if fs != nil && fs.workspace != "" {
			os.RemoveAll(fs.workspace)
		}
		t.Errorf("VIOLATION C11: squashfs.Create on a read-only backend returned no error")
	}
}
