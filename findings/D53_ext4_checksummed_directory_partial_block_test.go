// replay: package=filesystem/ext4
// finding: D53  property: C18
// obligation: ext4.parseDirEntriesLinear/bounds (directoryentry.go: b[i : i+int(blocksize)], block[checksumOffset:])
// With metadata checksums every block of a directory ends in a checksum record, and parseDirEntriesLinear cuts the
// directory into blocks of the filesystem block size. The length of the directory is the size field of its inode: a size
// that is not a multiple of the block size (or a block size below 12) made the last cut run past the end of the bytes.
package ext4

import (
	"encoding/binary"
	"testing"
)

func TestVerifReplay_D53(t *testing.T) {
	defer func() {
		if r := recover(); r != nil {
			t.Errorf("VIOLATION C18: parseDirEntriesLinear panicked on a checksummed directory of 1100 bytes with 1024-byte blocks: %v", r)
		}
	}()
	b := make([]byte, 1100)
	// the first block carries the right checksum, so that the cut reaches the partial second block
	binary.LittleEndian.PutUint32(b[1020:1024], directoryChecksummer(0, 2, 0)(b[:1024-minDirEntryLength]))
	if _, err := parseDirEntriesLinear(b, true, 1024, 2, 0, 0); err == nil {
		t.Errorf("VIOLATION C18: a checksummed directory of 1100 bytes (not a whole number of 1024-byte blocks) was accepted")
	}
}
