// replay: package=filesystem/squashfs
// finding: D43  property: C18
// obligation: allocation bound of squashfs.(*FileSystem).readBlock / readMetaBlock / readFragment (the decompressors read
//             their whole output with io.ReadAll)
// A data block of a squashfs image decompresses to at most the block size of the image (at most 1 MiB), a metadata block
// to 8 KiB. The decompressors returned whatever the stream produced: a block of 256 KiB of deflate data (legal: it is
// smaller than the block size) that expands to 256 MiB was decompressed in full before anything looked at its length.
package squashfs

import (
	"bytes"
	"compress/zlib"
	"runtime"
	"testing"
)

func TestVerifReplay_D43(t *testing.T) {
	const blocksize = 1 << 20
	var z bytes.Buffer
	w := zlib.NewWriter(&z)
	zeros := make([]byte, 1<<20)
	for i := 0; i < 256; i++ {
		_, _ = w.Write(zeros)
	}
	_ = w.Close()
	if z.Len() >= blocksize {
		t.Skipf("the crafted block has %d bytes, more than a block may have: the case proves nothing", z.Len())
	}
	mem := &verifMem{Data: append(make([]byte, 4096), z.Bytes()...)}
	fs := &FileSystem{superblock: &superblock{blocksize: blocksize}, compressor: &CompressorGzip{}, backend: verifDisk{mem}}
	runtime.GC()
	var before, after runtime.MemStats
	runtime.ReadMemStats(&before)
	out, err := fs.readBlock(4096, true, uint32(z.Len()))
	runtime.ReadMemStats(&after)
	if err == nil && len(out) > blocksize {
		t.Errorf("VIOLATION C18: a data block of %d bytes was decompressed to %d bytes, %d times the block size of the image", z.Len(), len(out), len(out)/blocksize)
	}
	if grown := after.TotalAlloc - before.TotalAlloc; grown > 64<<20 {
		t.Errorf("VIOLATION C18: reading one block of %d KiB allocated %d MiB (decompressed output not limited to the block size)", z.Len()>>10, grown>>20)
	}
}
