// replay: package=filesystem/squashfs
// finding: D31  property: C19 (C18)
// obligation: squashfs.readUidsGids/assert@ReadAt#0.blocks
// readUidsGids computes the byte size of the uid/gid table as idCount*4 in uint16: from 16384 ids on the product wraps,
// too few index entries are read and most of the table is dropped, so owners of files are reported wrong (or the lookup
// of an id index past the truncated table fails) for images with many distinct owners.
package squashfs

import (
	"encoding/binary"
	"testing"
)

type verifD31File struct {
	verifFile
	lastLen int
}

func (f *verifD31File) ReadAt(p []byte, off int64) (int, error) {
	f.lastLen = len(p)
	// fail after recording the request: the test only needs the size of the index read
	return 0, errD31
}

type verifD31Err struct{}

func (verifD31Err) Error() string { return "stop" }

var errD31 = verifD31Err{}

func TestVerifReplay_D31(t *testing.T) {
	_ = binary.LittleEndian
	f := &verifD31File{}
	sb := &superblock{}
	sb.idCount = 20000 // 80000 bytes of ids = 10 metadata blocks of 8192 -> 10 index entries = 80 bytes
	sb.idTableStart = 4096
	_, _ = readUidsGids(sb, f, nil)
	if f.lastLen != 80 {
		t.Errorf("VIOLATION C19: readUidsGids read %d bytes of block index for 20000 ids, want 80 (10 metadata blocks)", f.lastLen)
	}
}
