// replay: package=filesystem/iso9660
// finding: D38  property: C18
// obligations: iso9660.parseDirectoryEntryExtensions/bounds#4, iso9660.(*rockRidgeExtension).parseName/bounds#3,
//              iso9660.(*rockRidgeExtension).parseSymlink/bounds#3.., iso9660.(*rockRidgeExtension).parseTimestamps/bounds#3..,
//              iso9660.parseSystemUseExtensionExtensionsReference/bounds#3..
// The system-use area of a directory record is a list of SUSP entries, each with its own length byte. The walker slices
// an entry by that byte without comparing it with what is left of the record, and the Rock Ridge NM, SL and TF parsers
// and the SUSP ER parser read fixed fields and counted components without checking the entry is long enough: an entry
// of the minimum size 4, or one whose component/identifier lengths run past the entry, panics.
package iso9660

import "testing"

func verifD38NoPanic(t *testing.T, what string, f func()) {
	defer func() {
		if r := recover(); r != nil {
			t.Errorf("VIOLATION C18: %s panicked: %v", what, r)
		}
	}()
	f()
}

func TestVerifReplay_D38(t *testing.T) {
	rr := []suspExtension{getRockRidgeExtension(rockRidge112)}
	verifD38NoPanic(t, "SUSP entry longer than the system use area", func() {
		_, _ = parseDirectoryEntryExtensions([]byte{'Z', 'Z', 200, 1}, rr)
	})
	verifD38NoPanic(t, "Rock Ridge NM entry of 4 bytes", func() {
		_, _ = parseDirectoryEntryExtensions([]byte{'N', 'M', 4, 1}, rr)
	})
	verifD38NoPanic(t, "Rock Ridge SL entry of 4 bytes", func() {
		_, _ = parseDirectoryEntryExtensions([]byte{'S', 'L', 4, 1}, rr)
	})
	verifD38NoPanic(t, "Rock Ridge SL entry with a component cut off after its flags", func() {
		_, _ = parseDirectoryEntryExtensions([]byte{'S', 'L', 6, 1, 0, 0}, rr)
	})
	verifD38NoPanic(t, "Rock Ridge SL entry with a component longer than the entry", func() {
		_, _ = parseDirectoryEntryExtensions([]byte{'S', 'L', 8, 1, 0, 0, 200, 'a'}, rr)
	})
	verifD38NoPanic(t, "Rock Ridge TF entry of 4 bytes", func() {
		_, _ = parseDirectoryEntryExtensions([]byte{'T', 'F', 4, 1}, rr)
	})
	verifD38NoPanic(t, "Rock Ridge TF entry announcing more timestamps than it holds", func() {
		_, _ = parseDirectoryEntryExtensions([]byte{'T', 'F', 6, 1, 0x7f, 0}, rr)
	})
	verifD38NoPanic(t, "SUSP ER entry of 4 bytes", func() {
		_, _ = parseDirectoryEntryExtensions([]byte{'E', 'R', 4, 1}, rr)
	})
	verifD38NoPanic(t, "SUSP ER entry with identifier lengths past the entry", func() {
		_, _ = parseDirectoryEntryExtensions([]byte{'E', 'R', 8, 1, 200, 200, 200, 1}, rr)
	})
}
