// replay: package=filesystem/ext4
// finding: D59  property: C18
// obligations: ext4.journalCommitBlockFromBytes/bounds#4 (b[0x30:0x38]), bounds#6 (b[0x38:0x3c])
// The commit block decoder accepted any buffer of at least 32 bytes and then read the commit time at offsets 0x30..0x3c:
// a buffer of 32 to 59 bytes with a valid commit header panicked. (The decoder is not called from the read path of the
// library at this commit - only from its tests - so no image triggers it today; it is the decoder a journal replay would use.)
package ext4

import "testing"

func TestVerifReplay_D59(t *testing.T) {
	for _, n := range []int{32, 48, 59} {
		b := make([]byte, n, n) // capacity == length: slicing beyond the length must fail
		// magic 0xC03B3998, block type 2 (commit), sequence 1 - big endian
		copy(b, []byte{0xC0, 0x3B, 0x39, 0x98, 0, 0, 0, 2, 0, 0, 0, 1})
		func() {
			defer func() {
				if r := recover(); r != nil {
					t.Errorf("VIOLATION C18: journalCommitBlockFromBytes on %d bytes panicked: %v", n, r)
				}
			}()
			if _, err := journalCommitBlockFromBytes(b); err == nil {
				t.Errorf("VIOLATION C18: journalCommitBlockFromBytes on %d bytes returned a block and no error", n)
			}
		}()
	}
}
