// replay: package=filesystem/ext4
// finding: D48  property: C18
// obligation: allocation bound of ext4.(*FileSystem).readFileBytes (make([]byte, count) with count = extent length x block size)
// readFileBytes (every directory listing and symlink read goes through it) allocates a buffer for each extent before
// reading it. The extent length (16 bits) and the file size (64 bits) come from the image: an extent of 65535 blocks on a
// volume of 256 blocks made listing a directory of a 1 MiB image allocate 256 MiB before the read failed.
package ext4

import (
	"runtime"
	"testing"
)

func TestVerifReplay_D48(t *testing.T) {
	const blockSize = 4096
	const blocks = 256 // a volume of 1 MiB
	mem := &verifMem{Data: make([]byte, blocks*blockSize)}
	fs := &FileSystem{
		superblock: &superblock{blockSize: blockSize, blockCount: blocks},
		size:       blocks * blockSize,
		backend:    verifDisk{mem},
	}
	var before, after runtime.MemStats
	runtime.ReadMemStats(&before)
	_, err := fs.readFileBytes(extents{{fileBlock: 0, count: 65535, startingBlock: 10}}, 1<<40)
	runtime.ReadMemStats(&after)
	if err == nil {
		t.Errorf("VIOLATION C18: an extent of 65535 blocks starting at block 10 of a 256-block volume was read without error")
	}
	if grown := after.TotalAlloc - before.TotalAlloc; grown > 16<<20 {
		t.Errorf("VIOLATION C18: reading one file of a 1 MiB volume allocated %d MiB (extent length used as allocation size unchecked)", grown>>20)
	}
}
