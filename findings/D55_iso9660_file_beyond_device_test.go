// replay: package=filesystem/iso9660
// finding: D55  property: C18
// obligation: iso9660.(*File).Read - the count returned is the count the device delivered (not a clause of the C10 contract,
//             which speaks about counts and offsets only); allocation bound of a reader looping until EOF
// The extent of a file (start block, 32-bit size) comes from its directory record. Read asked the device for the bytes,
// ignored how many it got and treated io.EOF as success: for a record whose size runs far past the end of the image every
// call "delivered" a full buffer of bytes that were never read, up to the recorded size. io.ReadAll on a file of a 1 MiB
// image whose record says 256 MiB returns 256 MiB of zeros.
package iso9660

import (
	"io"
	"runtime"
	"testing"
)

func TestVerifReplay_D55(t *testing.T) {
	mem := &verifMem{Data: make([]byte, 1<<20)}
	fs := &FileSystem{blocksize: 2048, size: 1 << 20, backend: verifDisk{mem}}
	fl := &File{directoryEntry: &directoryEntry{location: 100, size: 256 << 20, filesystem: fs}}
	var before, after runtime.MemStats
	runtime.ReadMemStats(&before)
	data, err := io.ReadAll(fl)
	runtime.ReadMemStats(&after)
	if err == nil {
		t.Errorf("VIOLATION C18: reading a file whose record says 256 MiB on a 1 MiB image returned %d bytes and no error", len(data))
	}
	if grown := after.TotalAlloc - before.TotalAlloc; grown > 64<<20 {
		t.Errorf("VIOLATION C18: reading one file of a 1 MiB image allocated %d MiB (bytes the device never delivered were counted as read)", grown>>20)
	}
}
