// replay: package=filesystem/ext4
// finding: D34  property: C18
// obligations: ext4.Read (div by blocksPerGroup in blockGroupCount, makeslice of the GDT buffer, slices in groupDescriptorFromBytes)
// ext4.Read uses three superblock fields unchecked: blocks-per-group (a divisor), the group descriptor size (slices of
// every descriptor) and the product size*count (an allocation). A superblock with blocks-per-group = 0 crashes the opener
// with an integer divide by zero.
package ext4

import "testing"

func TestVerifReplay_D34(t *testing.T) {
	const size = 16 << 20
	mem := &verifMem{Data: make([]byte, size)}
	if _, err := Create(verifDisk{mem}, size, 0, 512, &Params{}); err != nil {
		t.Fatal(err)
	}
	func() {
		defer func() {
			if r := recover(); r != nil {
				t.Errorf("VIOLATION C18: ext4.Read panicked on blocks-per-group = 0: %v", r)
			}
		}()
		img := &verifMem{Data: append([]byte(nil), mem.Data...)}
		copy(img.Data[1024+0x20:1024+0x24], []byte{0, 0, 0, 0})
		if _, err := Read(verifDisk{img}, size, 0, 512); err == nil {
			t.Errorf("VIOLATION C18: ext4.Read accepted a superblock with zero blocks per group")
		}
	}()
	func() {
		defer func() {
			if r := recover(); r != nil {
				t.Errorf("VIOLATION C18: ext4.Read panicked on a huge block count: %v", r)
			}
		}()
		img := &verifMem{Data: append([]byte(nil), mem.Data...)}
		// blocks-per-group = 1 with the volume's block count: one descriptor per block -> GDT far larger than the volume
		copy(img.Data[1024+0x20:1024+0x24], []byte{1, 0, 0, 0})
		copy(img.Data[1024+0x4:1024+0x8], []byte{0xff, 0xff, 0xff, 0x7f})
		if _, err := Read(verifDisk{img}, size, 0, 512); err == nil {
			t.Errorf("VIOLATION C18: ext4.Read accepted a group descriptor table larger than the volume")
		}
	}()
}
