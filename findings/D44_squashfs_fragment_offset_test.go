// replay: package=filesystem/squashfs
// finding: D44  property: C18
// obligation: squashfs.(*FileSystem).readFragment/bounds#2 (squashfs.go: data[offset : int64(offset)+fragmentSize])
// The tail of a file lives in a fragment block at an offset stored in the file's inode. readFragment sliced the fragment
// block by that offset and the tail length without comparing them with the length of the block: a damaged fragment offset
// (or a fragment block shorter than the inode says) panicked.
package squashfs

import "testing"

func TestVerifReplay_D44(t *testing.T) {
	defer func() {
		if r := recover(); r != nil {
			t.Errorf("VIOLATION C18: readFragment panicked on a fragment offset beyond the fragment block: %v", r)
		}
	}()
	mem := &verifMem{Data: make([]byte, 8192)}
	fs := &FileSystem{
		superblock: &superblock{blocksize: 4096},
		backend:    verifDisk{mem},
		cache:      newLRU(4),
		fragments:  []*fragmentEntry{{start: 4096, size: 100, compressed: false}},
	}
	// the fragment block holds 100 bytes; the inode says the tail of 50 bytes starts at offset 3000
	if _, err := fs.readFragment(0, 3000, 50); err == nil {
		t.Errorf("VIOLATION C18: readFragment returned data from offset 3000 of a 100-byte fragment block")
	}
	// and a tail that starts inside the block but runs past its end
	if _, err := fs.readFragment(0, 80, 50); err == nil {
		t.Errorf("VIOLATION C18: readFragment returned 50 bytes from offset 80 of a 100-byte fragment block")
	}
}
