// replay: package=filesystem/iso9660
// finding: D30  property: C18
// obligations: iso9660.parseDirEntries/bounds#3, iso9660.parseDirEntriesJoliet/bounds#3,
//              iso9660.dirEntryFromBytesWithJoliet/bounds#12, iso9660.parsePathTable/bounds#3.., iso9660.parseJolietPathTable
// The ISO9660 decoders trust three on-disk length bytes: a directory record whose length byte runs past the end of the
// directory extent, a record whose file-name length runs past the record, and a path table entry cut off by the end of
// the table all slice out of range and panic.
package iso9660

import "testing"

func verifD30NoPanic(t *testing.T, what string, f func()) {
	defer func() {
		if r := recover(); r != nil {
			t.Errorf("VIOLATION C18: %s panicked: %v", what, r)
		}
	}()
	f()
}

func TestVerifReplay_D30(t *testing.T) {
	fs := &FileSystem{blocksize: 2048}
	verifD30NoPanic(t, "parseDirEntries on a record running past the extent", func() {
		b := make([]byte, 2048)
		b[2000] = 200 // record length 200 at offset 2000: 152 bytes past the end
		b[0] = 0
		// move the first record to offset 2000 by leaving [0,2000) as padding of an earlier block
		_, _ = parseDirEntries(b[2000:], fs)
	})
	verifD30NoPanic(t, "parseDirEntriesJoliet on a record running past the extent", func() {
		b := make([]byte, 48)
		b[0] = 200
		_, _ = parseDirEntriesJoliet(b, fs)
	})
	verifD30NoPanic(t, "dirEntryFromBytes with a name longer than the record", func() {
		b := make([]byte, 40)
		b[0] = 40
		b[32] = 200 // name length
		_, _ = dirEntryFromBytes(b, nil)
	})
	verifD30NoPanic(t, "parsePathTable on a truncated entry", func() {
		b := []byte{5, 0, 1, 0}
		_ = parsePathTable(b)
	})
	verifD30NoPanic(t, "parseJolietPathTable on a truncated entry", func() {
		b := []byte{6, 0, 1, 0, 0, 0, 1, 0, 'a', 0}
		_ = parseJolietPathTable(b)
	})
}
