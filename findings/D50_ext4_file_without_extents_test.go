// replay: package=filesystem/ext4
// finding: D50  property: C18
// obligation: ext4.(*File).Read/post#progress once the precondition "the extents cover the file" is dropped
// The size of a file comes from its inode, its extents from the extent tree. When no extent covers the read position (an
// inode with a size but an empty or truncated extent tree) Read fell through its loop and returned 0 bytes and no error
// for a non-empty buffer: io.ReadAll / ReadFile on such a file never returns.
package ext4

import (
	"testing"
)

func TestVerifReplay_D50(t *testing.T) {
	mem := &verifMem{Data: make([]byte, 1<<20)}
	fs := &FileSystem{superblock: &superblock{blockSize: 1024, blockCount: 1024}, size: 1 << 20, backend: verifDisk{mem}}
	for _, tc := range []struct {
		name string
		ext  extents
	}{
		{"no extents", nil},
		{"extents end before the read position", extents{{fileBlock: 0, count: 1, startingBlock: 20}}},
	} {
		fl := &File{inode: &inode{size: 10000}, filesystem: fs, extents: tc.ext, offset: 2048}
		buf := make([]byte, 512)
		spins := 0
		for ; spins < 1000; spins++ {
			n, err := fl.Read(buf)
			if err != nil || n > 0 {
				break
			}
		}
		if spins == 1000 {
			t.Errorf("VIOLATION C18: %s: Read returned 0 bytes and no error 1000 times in a row on a file of 10000 bytes (a reader looping until EOF never ends)", tc.name)
		}
	}
}
