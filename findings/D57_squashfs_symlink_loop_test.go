// replay: package=filesystem/squashfs
// finding: D57  property: C18
// obligation: termination of squashfs.(*directoryEntry).Open / (*FileSystem).OpenFile on symbolic links (variant: number of
//             links followed)
// Opening a symbolic link opens its target through OpenFile, which opens the target's directory entry, which - if it is a
// link again - opens its target ... without any count. A link that names itself (`ln -s loop loop`, a perfectly valid
// image) recurses until the goroutine stack is exhausted, which is fatal and cannot be recovered. The replay bounds the
// recursion by letting the device fail after 20000 reads.
package squashfs

import (
	"errors"
	"os"
	"path/filepath"
	"testing"

	"github.com/diskfs/go-diskfs/backend"
	"github.com/diskfs/go-diskfs/backend/file"
)

type verifD57Backend struct {
	backend.Storage
	reads *int
}

func (b verifD57Backend) ReadAt(p []byte, off int64) (int, error) {
	*b.reads++
	if *b.reads > 20000 {
		return 0, errors.New("replay: device stopped answering after 20000 reads")
	}
	return b.Storage.ReadAt(p, off)
}

func TestVerifReplay_D57(t *testing.T) {
	f, err := os.CreateTemp("", "squashfs")
	if err != nil {
		t.Fatal(err)
	}
	defer os.Remove(f.Name())
	_ = f.Truncate(10 << 20)
	fs, err := Create(file.New(f, false), 10<<20, 0, 4096)
	if err != nil {
		t.Fatal(err)
	}
	// the link first names a regular file (the finalizer refuses to walk a link that loops); its target is then changed to
	// its own name in the (uncompressed) inode table of the image - what `ln -s loop loop` would have produced
	if err := os.WriteFile(filepath.Join(fs.Workspace(), "lo0p"), []byte("x"), 0o600); err != nil {
		t.Fatal(err)
	}
	if err := os.Symlink("lo0p", filepath.Join(fs.Workspace(), "loop")); err != nil {
		t.Skipf("cannot create a symbolic link in the workspace: %v", err)
	}
	// (the finalizer reads link targets relative to the current directory)
	if wd, err := os.Getwd(); err == nil {
		defer func() { _ = os.Chdir(wd) }()
		_ = os.Chdir(fs.Workspace())
	}
	if err := fs.Finalize(FinalizeOptions{NoCompressInodes: true}); err != nil {
		t.Skipf("cannot finalize the base image of this replay: %v", err)
	}
	img, err := os.ReadFile(f.Name())
	if err != nil {
		t.Fatal(err)
	}
	sb, err := parseSuperblock(img[:superblockSize])
	if err != nil {
		t.Skipf("cannot parse the superblock of the base image: %v", err)
	}
	patched := 0
	for i := int(sb.inodeTableStart); i+4 <= int(sb.directoryTableStart) && i+4 <= len(img); i++ {
		if string(img[i:i+4]) == "lo0p" {
			copy(img[i:], "loop")
			patched++
		}
	}
	if patched != 1 {
		t.Skipf("expected the link target once in the inode table, found it %d times: the case proves nothing", patched)
	}
	if err := os.WriteFile(f.Name(), img, 0o600); err != nil {
		t.Fatal(err)
	}
	reads := 0
	rfs, err := Read(verifD57Backend{Storage: file.New(f, true), reads: &reads}, 10<<20, 0, 4096)
	if err != nil {
		t.Skipf("cannot open the base image of this replay: %v", err)
	}
	rfs.SetCacheSize(0)
	reads = 0
	_, err = rfs.OpenFile("loop", os.O_RDONLY)
	if reads > 1000 {
		t.Errorf("VIOLATION C18: opening a symbolic link that names itself read the device %d times (err=%v): without the replay's read limit the recursion ends in a fatal stack overflow", reads, err)
	} else if err == nil {
		t.Errorf("VIOLATION C18: opening a symbolic link that names itself returned no error")
	}
}
