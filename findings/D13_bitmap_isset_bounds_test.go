// replay: package=util/bitmap
// finding: D13  property: C04 (C18)
// obligation: bitmap.(*Bitmap).IsSet/bounds#1
// IsSet rejects a location only when its byte number is greater than the bitmap's length; the first position past the end
// (byte number == length) indexes out of range and panics, where Set and Clear return an error.
package bitmap

import "testing"

func TestVerifReplay_D13(t *testing.T) {
	defer func() {
		if r := recover(); r != nil {
			t.Errorf("VIOLATION C04: IsSet(16) on a 2-byte bitmap panicked: %v", r)
		}
	}()
	bm := NewBytes(2)
	if _, err := bm.IsSet(16); err == nil {
		t.Errorf("VIOLATION C04: IsSet(16) on a 16-bit bitmap returned no error")
	}
}
