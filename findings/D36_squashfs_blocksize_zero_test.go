// replay: package=filesystem/squashfs
// finding: D36  property: C18
// obligation: squashfs.Read/div (divide by the superblock's block size), later the same divisor in File.Read and the inode parsers
// parseSuperblock only checks that the block-log field matches log2 of the block size. A block size of 0 with a block log
// of 0 passes (log2(0) converts to 0), and squashfs.Read then divides the cache size by it: integer divide by zero.
package squashfs

import (
	"encoding/binary"
	"testing"
	"time"
)

type verifD36Dev struct {
	verifStorage
	data []byte
}

func (d verifD36Dev) ReadAt(p []byte, off int64) (int, error) {
	for i := range p {
		if int(off)+i < len(d.data) {
			p[i] = d.data[int(off)+i]
		}
	}
	return len(p), nil
}

func TestVerifReplay_D36(t *testing.T) {
	defer func() {
		if r := recover(); r != nil {
			t.Errorf("VIOLATION C18: squashfs.Read panicked on a superblock with block size 0: %v", r)
		}
	}()
	sb := &superblock{blocksize: 4096, modTime: time.Unix(0, 0), rootInode: &inodeRef{}, superblockFlags: superblockFlags{}}
	img := make([]byte, 1<<16)
	copy(img, sb.toBytes())
	binary.LittleEndian.PutUint32(img[12:16], 0) // block size
	binary.LittleEndian.PutUint16(img[22:24], 0) // block log
	if _, err := Read(verifD36Dev{data: img}, int64(len(img)), 0, 0); err == nil {
		t.Errorf("VIOLATION C18: a squashfs superblock with block size 0 was accepted")
	}
}
