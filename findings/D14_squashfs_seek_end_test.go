// replay: package=filesystem/squashfs
// finding: D14  property: C10
// obligation: squashfs.(*File).Seek/post#ok
// io.Seeker: with io.SeekEnd the new offset is size+offset. The code computed size-offset, so Seek(-10, io.SeekEnd) on a
// 100-byte file reported position 110 and Seek(10, io.SeekEnd) position 90.
package squashfs

import (
	"io"
	"testing"
)

func TestVerifReplay_D14(t *testing.T) {
	fl := &File{extendedFile: &extendedFile{fileSize: 100}, filesystem: &FileSystem{}}
	pos, err := fl.Seek(-10, io.SeekEnd)
	if err != nil || pos != 90 {
		t.Errorf("VIOLATION C10: Seek(-10, io.SeekEnd) on a 100-byte file = (%d, %v), want (90, nil)", pos, err)
	}
}
