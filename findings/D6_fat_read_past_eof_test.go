// replay: package=filesystem/fat12
// finding: D6  property: C10 (also C01)
// obligation: fat12.(*File).Read/inv-entry#i (totalRead <= maxRead), post#remain
// A Read that starts in the middle of a cluster copies min(bytesPerCluster - offset%bpc, len(b)) bytes without clamping to
// the bytes that remain in the file: with size 100, offset 10 and a 1000-byte buffer it returns 502 bytes.
package fat12

import (
	"io"
	"os"
	"testing"

	"github.com/diskfs/go-diskfs/backend/file"
)

func TestVerifReplay_D6(t *testing.T) {
	f, err := os.CreateTemp("", "fat12")
	if err != nil {
		t.Fatal(err)
	}
	defer os.Remove(f.Name())
	_ = f.Truncate(4 << 20)
	fs, err := Create(file.New(f, false), 4<<20, 0, 512, "x", true)
	if err != nil {
		t.Fatal(err)
	}
	fl, err := fs.OpenFile("/a.txt", os.O_CREATE|os.O_RDWR)
	if err != nil {
		t.Fatal(err)
	}
	data := make([]byte, 100)
	for i := range data {
		data[i] = byte(i)
	}
	if _, err := fl.Write(data); err != nil {
		t.Fatal(err)
	}
	if _, err := fl.Seek(10, io.SeekStart); err != nil {
		t.Fatal(err)
	}
	buf := make([]byte, 1000)
	n, err := fl.Read(buf)
	if n > 90 {
		t.Errorf("VIOLATION C10: Read returned %d bytes (err=%v) with only 90 bytes remaining in the file", n, err)
	}
}
