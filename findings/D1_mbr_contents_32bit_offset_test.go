// replay: package=partition/mbr
// finding: D1  property: C13 (also C03)
// obligations: mbr.(*Partition).WriteContents/inv-keep#range, post#range, post#exact ; mbr.(*Partition).ReadContents/post#range
// A partition starting at LBA 2^23 with 512-byte sectors lies at byte offset 4 GiB. The 32-bit product
// p.Start*uint32(lss) wraps to 0, so WriteContents writes over the start of the device and ReadContents reads from there.
package mbr

import (
	"bytes"
	"io"
	"os"
	"testing"
)

type verifRecW struct{ offs []int64 }

func (w *verifRecW) WriteAt(p []byte, off int64) (int, error) {
	w.offs = append(w.offs, off)
	return len(p), nil
}
func (w *verifRecW) ReadAt(p []byte, off int64) (int, error) {
	w.offs = append(w.offs, off)
	for i := range p {
		p[i] = byte(off >> 32)
	}
	return len(p), nil
}
func (w *verifRecW) Read(p []byte) (int, error)                 { return 0, io.EOF }
func (w *verifRecW) Close() error                               { return nil }
func (w *verifRecW) Seek(o int64, wh int) (int64, error)        { return 0, nil }
func (w *verifRecW) Stat() (os.FileInfo, error)                 { return nil, nil }

func TestVerifReplay_D1(t *testing.T) {
	p := &Partition{Start: 1 << 23, Size: 2, logicalSectorSize: 512, physicalSectorSize: 512}
	want := p.GetStart() // 4 GiB, computed in 64 bits
	w := &verifRecW{}
	n, err := p.WriteContents(w, bytes.NewReader(make([]byte, 1024)))
	if err != nil || n != 1024 {
		t.Fatalf("WriteContents: n=%d err=%v", n, err)
	}
	for _, o := range w.offs {
		if o < want || o >= want+p.GetSize() {
			t.Errorf("VIOLATION C13/C03: WriteContents wrote at byte offset %d, partition is [%d,%d)", o, want, want+p.GetSize())
		}
	}
	r := &verifRecW{}
	var out bytes.Buffer
	if _, err := p.ReadContents(r, &out); err != nil {
		t.Fatal(err)
	}
	for _, o := range r.offs {
		if o < want || o >= want+p.GetSize() {
			t.Errorf("VIOLATION C13: ReadContents read at byte offset %d, partition is [%d,%d)", o, want, want+p.GetSize())
		}
	}
	// size*sector >= 2^32
	p2 := &Partition{Start: 1, Size: 1 << 23, logicalSectorSize: 512, physicalSectorSize: 512}
	w2 := &verifRecW{}
	_, err = p2.WriteContents(w2, bytes.NewReader(make([]byte, 512)))
	if err == nil {
		t.Errorf("VIOLATION C13: WriteContents accepted 512 bytes for a 4 GiB partition (size wrapped to %d)", uint32(p2.Size*512))
	}
}
