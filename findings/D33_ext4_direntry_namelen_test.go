// replay: package=filesystem/ext4
// finding: D33  property: C18
// obligation: ext4.directoryEntryFromBytes/bounds#3
// The name length byte of an ext4 directory entry is used to slice the record without being checked against it: a
// corrupted name_len larger than the record makes directoryEntryFromBytes panic (slice bounds out of range).
package ext4

import "testing"

func TestVerifReplay_D33(t *testing.T) {
	defer func() {
		if r := recover(); r != nil {
			t.Errorf("VIOLATION C18: directoryEntryFromBytes panicked on name_len past the record: %v", r)
		}
	}()
	b := make([]byte, 12)
	b[0] = 2    // inode
	b[4] = 12   // rec_len
	b[6] = 200  // name_len: 200 bytes in a 12-byte record
	if _, err := directoryEntryFromBytes(b); err == nil {
		t.Errorf("VIOLATION C18: directoryEntryFromBytes accepted a name longer than its record")
	}
}

// second half of D33: 0x8+nameLength was computed in uint8, so names of 248..255 bytes (legal in ext4) wrapped around and
// sliced b[8:n] with n < 8.
func TestVerifReplay_D33_LongName(t *testing.T) {
	defer func() {
		if r := recover(); r != nil {
			t.Errorf("VIOLATION C18: directoryEntryFromBytes panicked on a 250-byte name: %v", r)
		}
	}()
	b := make([]byte, 8+252)
	b[0] = 2
	b[6] = 250
	for i := 0; i < 250; i++ {
		b[8+i] = 'a'
	}
	de, err := directoryEntryFromBytes(b)
	if err != nil || len(de.filename) != 250 {
		t.Errorf("VIOLATION C18: 250-byte name not decoded: %v", err)
	}
}
