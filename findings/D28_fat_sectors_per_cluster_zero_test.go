// replay: package=filesystem/fat12
// finding: D28  property: C18
// obligation: fat12.Read/div#1 (integer divide by zero), same line in fat16.Read
// The BPB decoder validates the sector size but not sectors-per-cluster; fat12.Read and fat16.Read divide the data sector
// count by it. One zero byte at offset 13 of the boot sector crashes the process that opens the image.
package fat12

import "testing"

func TestVerifReplay_D28(t *testing.T) {
	defer func() {
		if r := recover(); r != nil {
			t.Errorf("VIOLATION C18: fat12.Read panicked on sectors-per-cluster = 0: %v", r)
		}
	}()
	const size = 1440 * 1024
	mem := &verifMem{Data: make([]byte, size)}
	if _, err := Create(verifDisk{mem}, size, 0, 512, "D28", true); err != nil {
		t.Fatal(err)
	}
	mem.Data[13] = 0
	if _, err := Read(verifDisk{mem}, size, 0, 512); err == nil {
		t.Errorf("VIOLATION C18: fat12.Read accepted a volume with zero sectors per cluster")
	}
}
