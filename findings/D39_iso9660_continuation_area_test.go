// replay: package=filesystem/iso9660
// finding: D39  property: C18
// obligations: iso9660.parseDirEntry/bounds#3 (directoryentry.go: de.extensions[len(de.extensions)-1]), termination and
//              allocation bound of the continuation-area loop of parseDirEntry
// A directory record whose last SUSP entry is a CE (continuation area) entry makes parseDirEntry read the area it names,
// parse it and splice its entries in place of the CE, in a loop. Three corruptions of the CE fields break that loop:
//  - a continuation area that holds no entry (length 0, or zeroes) leaves the extension list empty and the next
//    iteration indexes it at -1;
//  - a continuation area that holds a CE entry naming itself never terminates (and grows the list on every round);
//  - the 32-bit continuation length is used as an allocation size unchecked.
package iso9660

import (
	"encoding/binary"
	"runtime"
	"testing"
	"time"
)

func verifD39CE(location, offset, length uint32) []byte {
	b := make([]byte, 28)
	copy(b, "CE")
	b[2] = 28
	b[3] = 1
	binary.LittleEndian.PutUint32(b[4:8], location)
	binary.BigEndian.PutUint32(b[8:12], location)
	binary.LittleEndian.PutUint32(b[12:16], offset)
	binary.BigEndian.PutUint32(b[16:20], offset)
	binary.LittleEndian.PutUint32(b[20:24], length)
	binary.BigEndian.PutUint32(b[24:28], length)
	return b
}

// a directory record named "A" whose system use area is the given bytes
func verifD39Record(susp []byte) []byte {
	b := make([]byte, 34+len(susp))
	b[0] = byte(len(b))
	b[32] = 1
	b[33] = 'A'
	copy(b[34:], susp)
	// recording date: a valid day so that the date decoder has nothing to complain about
	b[18], b[19], b[20] = 100, 1, 1
	return b
}

func TestVerifReplay_D39(t *testing.T) {
	const volume = 1 << 20
	newFS := func() (*FileSystem, *verifMem) {
		mem := &verifMem{Data: make([]byte, volume)}
		return &FileSystem{blocksize: 2048, size: volume, suspEnabled: true, backend: verifDisk{mem}}, mem
	}

	t.Run("empty continuation area", func(t *testing.T) {
		defer func() {
			if r := recover(); r != nil {
				t.Errorf("VIOLATION C18: parseDirEntry panicked on a record whose continuation area is empty: %v", r)
			}
		}()
		fs, _ := newFS()
		_, _ = parseDirEntry(verifD39Record(verifD39CE(30, 0, 0)), fs)
	})

	t.Run("continuation area naming itself", func(t *testing.T) {
		fs, mem := newFS()
		copy(mem.Data[30*2048:], verifD39CE(30, 0, 28))
		done := make(chan struct{})
		go func() {
			defer close(done)
			defer func() { _ = recover() }()
			_, _ = parseDirEntry(verifD39Record(verifD39CE(30, 0, 28)), fs)
		}()
		select {
		case <-done:
		case <-time.After(3 * time.Second):
			// stop the runaway goroutine: its next read fails
			mem.Data = nil
			<-done
			t.Errorf("VIOLATION C18: parseDirEntry did not terminate within 3s on a continuation area that names itself")
		}
	})

	t.Run("continuation length of 3 GiB", func(t *testing.T) {
		fs, _ := newFS()
		var before, after runtime.MemStats
		runtime.ReadMemStats(&before)
		_, err := parseDirEntry(verifD39Record(verifD39CE(30, 0, 0xC0000000)), fs)
		runtime.ReadMemStats(&after)
		if err == nil {
			t.Errorf("VIOLATION C18: a continuation area of 3 GiB on a 1 MiB volume was accepted")
		}
		if grown := after.TotalAlloc - before.TotalAlloc; grown > 1<<30 {
			t.Errorf("VIOLATION C18: decoding one directory record of a 1 MiB volume allocated %d MiB (continuation length used unchecked)", grown>>20)
		}
	})
}
