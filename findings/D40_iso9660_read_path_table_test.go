// replay: package=filesystem/iso9660
// finding: D40  property: C18
// obligations: iso9660.Read/nil (rootDirEntry when the image has no primary volume descriptor); allocation bound of
//              iso9660.Read and iso9660.loadJoliet (make([]byte, pathTableSize) with the size taken from the descriptor)
// Read walks the volume descriptors up to the terminator. If none of them is a primary volume descriptor the root
// directory entry stays nil and is dereferenced. If there is one, its 32-bit path table size (and that of a Joliet
// supplementary descriptor) is used as an allocation size before anything is read: a corrupted size field makes opening a
// 1 MiB image allocate gigabytes.
package iso9660

import (
	"runtime"
	"testing"
	"time"
)

func verifD40Image(pathTableSize uint32, withPrimary bool) *verifMem {
	const volume = 1 << 20
	mem := &verifMem{Data: make([]byte, volume)}
	now := time.Date(2020, 1, 2, 3, 4, 5, 0, time.UTC)
	root := &directoryEntry{location: 20, size: 2048, isSubdirectory: true, isSelf: true, creation: now, volumeSequence: 1}
	next := 16
	if withPrimary {
		pvd := &primaryVolumeDescriptor{
			volumeIdentifier: "VERIF", volumeSize: volume / 2048, setSize: 1, sequenceNumber: 1, blocksize: 2048,
			pathTableSize: pathTableSize, pathTableLLocation: 18, pathTableMLocation: 19,
			rootDirectoryEntry: root, creation: now, modification: now, expiration: now, effective: now,
		}
		copy(mem.Data[next*2048:], pvd.toBytes())
		next++
	}
	copy(mem.Data[next*2048:], (&terminatorVolumeDescriptor{}).toBytes())
	// the root directory: self and parent records
	rec, _ := root.toBytes(true, []uint32{})
	copy(mem.Data[20*2048:], rec[0])
	return mem
}

func TestVerifReplay_D40(t *testing.T) {
	t.Run("sane image opens", func(t *testing.T) {
		mem := verifD40Image(10, true)
		if _, err := Read(verifDisk{mem}, int64(len(mem.Data)), 0, 2048); err != nil {
			t.Skipf("the base image of this replay is not accepted (%v): the two cases below prove nothing", err)
		}
	})
	t.Run("no primary volume descriptor", func(t *testing.T) {
		defer func() {
			if r := recover(); r != nil {
				t.Errorf("VIOLATION C18: Read panicked on a descriptor set without a primary volume descriptor: %v", r)
			}
		}()
		mem := verifD40Image(10, false)
		_, _ = Read(verifDisk{mem}, int64(len(mem.Data)), 0, 2048)
	})
	t.Run("path table size of 3 GiB", func(t *testing.T) {
		mem := verifD40Image(0xC0000000, true)
		var before, after runtime.MemStats
		runtime.ReadMemStats(&before)
		_, err := Read(verifDisk{mem}, int64(len(mem.Data)), 0, 2048)
		runtime.ReadMemStats(&after)
		if err == nil {
			t.Errorf("VIOLATION C18: a path table of 3 GiB on a 1 MiB volume was accepted")
		}
		if grown := after.TotalAlloc - before.TotalAlloc; grown > 1<<30 {
			t.Errorf("VIOLATION C18: opening a 1 MiB volume allocated %d MiB (path table size used unchecked)", grown>>20)
		}
	})
}
