// replay: package=filesystem/fat12
// finding: D17  property: C18
// obligation: fat12.(*FileSystem).getClusterList - termination (the chain walk has no variant: no bound on its length)
// A FAT whose entries form a cycle (cluster 5 -> 6 -> 5) makes getClusterList loop forever, appending to its result until
// the process runs out of memory: opening a file or listing a directory of a damaged image never returns.
package fat12

import (
	"testing"
	"time"
)

func TestVerifReplay_D17(t *testing.T) {
	tbl := newFat12Table(0xff8, 4608)
	tbl.clusters[5] = 6
	tbl.clusters[6] = 5
	fs := &FileSystem{table: tbl}
	done := make(chan error, 1)
	go func() {
		_, err := fs.getClusterList(5)
		done <- err
	}()
	select {
	case err := <-done:
		if err == nil {
			t.Errorf("VIOLATION C18: a cyclic cluster chain was accepted")
		}
	case <-time.After(3 * time.Second):
		t.Errorf("VIOLATION C18: getClusterList did not return within 3 s on a cyclic chain (endless loop, unbounded allocation)")
	}
}
