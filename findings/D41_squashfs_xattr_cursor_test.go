// replay: package=filesystem/squashfs
// finding: D41  property: C18
// obligations: squashfs.(*xAttrTable).find/bounds#3 (xattr.go: b[ptr:]) and the loop invariant ptr <= len(b)
// find walks the key/value pairs of one xattr id. After a pair it advances the cursor with `ptr += valStart + valSize`,
// but valStart already includes ptr: from the second pair on the cursor jumps too far. With three pairs where the first is
// longer than the third the cursor passes the end of the table and `b[ptr:]` panics; shorter tables are misparsed.
package squashfs

import (
	"encoding/binary"
	"testing"
)

func verifD41Pair(name, value string) []byte {
	b := make([]byte, 4, 8+len(name)+len(value))
	binary.LittleEndian.PutUint16(b[2:4], uint16(len(name)))
	b = append(b, name...)
	b = binary.LittleEndian.AppendUint32(b, uint32(len(value)))
	return append(b, value...)
}

func TestVerifReplay_D41(t *testing.T) {
	defer func() {
		if r := recover(); r != nil {
			t.Errorf("VIOLATION C18: xAttrTable.find panicked on a well-formed list of three xattrs: %v", r)
		}
	}()
	var data []byte
	data = append(data, verifD41Pair("user.first", "a value of some length")...)
	data = append(data, verifD41Pair("user.b", "2")...)
	data = append(data, verifD41Pair("user.c", "3")...)
	x := &xAttrTable{list: []*xAttrIndex{{pos: 0, count: 3, size: uint32(len(data))}}, data: data}
	got, err := x.find(0)
	if err != nil {
		t.Errorf("VIOLATION C18: xAttrTable.find refused a well-formed list of three xattrs: %v", err)
		return
	}
	if len(got) != 3 || got["user.first"] != "a value of some length" || got["user.b"] != "2" || got["user.c"] != "3" {
		t.Errorf("VIOLATION C18: xAttrTable.find misread a well-formed list of three xattrs: %v", got)
	}
}
