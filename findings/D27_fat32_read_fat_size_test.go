// replay: package=filesystem/fat32
// finding: D27  property: C18
// obligations: fat32.Read/pre@tableFromBytes (len(b) >= 8), fat32.Read/allocsize (FAT buffer bounded by the volume size)
// fat32.Read takes sectors-per-FAT from the boot sector and uses it unchecked: a value of 0 makes tableFromBytes slice an
// empty buffer (panic: slice bounds out of range), and a huge value allocates up to 4 GiB for a 64 MiB image.
package fat32

import (
	"testing"
)

func verifD27Image(t *testing.T) *verifMem {
	const size = 64 << 20
	mem := &verifMem{Data: make([]byte, size)}
	if _, err := Create(verifDisk{mem}, size, 0, 512, "D27", true); err != nil {
		t.Fatal(err)
	}
	return mem
}

func TestVerifReplay_D27(t *testing.T) {
	const size = 64 << 20
	func() {
		defer func() {
			if r := recover(); r != nil {
				t.Errorf("VIOLATION C18: fat32.Read panicked on a boot sector with sectors-per-FAT = 0: %v", r)
			}
		}()
		mem := verifD27Image(t)
		copy(mem.Data[36:40], []byte{0, 0, 0, 0})
		if _, err := Read(verifDisk{mem}, size, 0, 512); err == nil {
			t.Errorf("VIOLATION C18: fat32.Read accepted a volume whose FAT has no sectors")
		}
	}()
	func() {
		defer func() {
			if r := recover(); r != nil {
				t.Errorf("VIOLATION C18: fat32.Read panicked on a huge sectors-per-FAT: %v", r)
			}
		}()
		mem := verifD27Image(t)
		// 0x00400000 sectors of 512 bytes = 2 GiB of FAT claimed by a 64 MiB volume
		copy(mem.Data[36:40], []byte{0x00, 0x00, 0x40, 0x00})
		if _, err := Read(verifDisk{mem}, size, 0, 512); err == nil {
			t.Errorf("VIOLATION C18: fat32.Read accepted (and allocated for) a FAT of 2 GiB on a 64 MiB volume")
		}
	}()
}
