// replay: package=filesystem/fat12
// finding: D29  property: C18
// obligation: fat12.Dos40EBPBFromBytes/bounds#3 (index out of range at b[26])
// The exported decoder accepts any slice of at least 26 bytes and then reads bytes 26..31 of it: inputs of 26 to 31 bytes
// panic instead of being rejected. (The library's own callers always pass 501 bytes, so no image triggers it.)
package fat12

import "testing"

func TestVerifReplay_D29(t *testing.T) {
	defer func() {
		if r := recover(); r != nil {
			t.Errorf("VIOLATION C18: Dos40EBPBFromBytes panicked on a 28-byte input: %v", r)
		}
	}()
	b := make([]byte, 28)
	b[0], b[1] = 0x00, 0x02 // 512 bytes per sector
	b[2] = 1                // sectors per cluster
	if _, _, err := Dos40EBPBFromBytes(b); err == nil {
		t.Errorf("VIOLATION C18: Dos40EBPBFromBytes accepted a 28-byte input")
	}
}
