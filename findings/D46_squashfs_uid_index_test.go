// replay: package=filesystem/squashfs
// finding: D46  property: C18
// obligation: squashfs.(*FileSystem).directoryEntryFromInode/bounds#1,#2 (squashfs.go: fs.uidsGids[header.uidIdx], [header.gidIdx])
// Every inode header carries two 16-bit indexes into the id table of the image. directoryEntryFromInode (run for every
// entry of every directory that is listed) used them unchecked: an index at or beyond the number of ids panicked.
package squashfs

import "testing"

func TestVerifReplay_D46(t *testing.T) {
	defer func() {
		if r := recover(); r != nil {
			t.Errorf("VIOLATION C18: directoryEntryFromInode panicked on an id index beyond the id table: %v", r)
		}
	}()
	fs := &FileSystem{superblock: &superblock{blocksize: 4096}, uidsGids: []uint32{0, 1000}}
	in := &inodeImpl{
		header: &inodeHeader{inodeType: inodeBasicFile, uidIdx: 2, gidIdx: 7},
		body:   &basicFile{},
	}
	if _, err := fs.directoryEntryFromInode("a", in, false); err == nil {
		t.Errorf("VIOLATION C18: an inode with uid index 2 and gid index 7 was accepted with an id table of 2 entries")
	}
}
