// replay: package=filesystem/fat12
// finding: D56  property: C18
// obligation: fat12.(*File).Read - a failed device read is reported (the result of ReadAt was discarded: `_, _ = file.ReadAt`)
// Read located each cluster of the file on the device, asked for its bytes and discarded both results of ReadAt. Clusters
// that lie beyond the end of the device (a damaged FAT entry or geometry) therefore "delivered" buffers that were never
// read, without an error: a chain of 4000 clusters of 32 KiB on a 1 MiB device reads as 125 MiB of zeros.
package fat12

import (
	"io"
	"testing"
)

func TestVerifReplay_D56(t *testing.T) {
	const clusters = 4000
	mem := &verifMem{Data: make([]byte, 1<<20)}
	tbl := newFat12Table(0xff8, 8192)
	for c := uint32(2); c < 2+clusters-1; c++ {
		tbl.SetCluster(c, c+1)
	}
	tbl.SetCluster(2+clusters-1, tbl.EOCMarker())
	fs := &FileSystem{table: tbl, bytesPerCluster: 32768, dataStart: 8192, backend: verifDisk{mem}, size: 1 << 20}
	fl := &File{directoryEntry: &directoryEntry{clusterLocation: 2, fileSize: clusters * 32768}, filesystem: fs}
	data, err := io.ReadAll(fl)
	if err == nil {
		t.Errorf("VIOLATION C18: reading a file whose clusters lie beyond a 1 MiB device returned %d MiB and no error", len(data)>>20)
	}
}
