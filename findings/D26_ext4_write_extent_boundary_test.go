// replay: package=filesystem/ext4
// finding: D26  property: C04 (C18)
// obligation: ext4.(*File).Write/alloc (makeslice with a negative length) - the write-side twin of D10(a)
// File.Write skips an extent only if it ends strictly before the block of the write position (`<`). When the position lies
// in the first block of the next extent and is not block aligned, the previous extent is not skipped, the offset inside it
// exceeds its size and make([]byte, negative) panics. Three 700-byte appends to a file whose first extent holds one block
// are enough on a real volume.
package ext4

import "testing"

func TestVerifReplay_D26(t *testing.T) {
	defer func() {
		if r := recover(); r != nil {
			t.Errorf("VIOLATION C04: Write at an unaligned offset behind an extent boundary panicked: %v", r)
		}
	}()
	mem := &verifMem{Data: make([]byte, 1<<20)}
	fl := &File{
		inode:       &inode{size: 8000},
		filesystem:  &FileSystem{superblock: &superblock{blockSize: 1024}, backend: verifDisk{mem}},
		extents:     extents{{fileBlock: 0, startingBlock: 100, count: 4}, {fileBlock: 4, startingBlock: 200, count: 4}},
		isReadWrite: true,
	}
	fl.blocks = 8 * 1024 / 512
	fl.offset = 5000
	n, err := fl.Write(make([]byte, 100))
	if n != 100 || err != nil {
		t.Errorf("VIOLATION C04: Write = (%d, %v), want (100, nil)", n, err)
	}
}
