// replay: package=filesystem/ext4
// finding: D12  property: C18
// obligation (zero-annotation sweep): ext4.inodeFromBytes - slice bounds of b[0x9c:0x100]
// inodeFromBytes accepts any inode size of at least 160 bytes but reads the project id as b[0x9c:0x100]: a superblock
// whose inode size field is corrupted to a value between 160 and 255 makes every inode read panic.
package ext4

import "testing"

func TestVerifReplay_D12(t *testing.T) {
	defer func() {
		if r := recover(); r != nil {
			t.Errorf("VIOLATION C18: inodeFromBytes panicked for an inode size of 200: %v", r)
		}
	}()
	sb := &superblock{inodeSize: 200, blockSize: 1024}
	b := make([]byte, 200)
	// an error (checksum mismatch etc.) is fine, a panic is not
	_, _ = inodeFromBytes(b, sb, 2)
}
