// replay: package=filesystem/fat12
// finding: D25  property: C11
// obligation: fat12.(*FileSystem).OpenFile/post#roerr
// On a read-only backend OpenFile for writing must fail. FAT only discovers the read-only backend when it needs a writer:
// opening an existing file with O_RDWR (or O_APPEND, or O_CREATE of an existing name) returns a handle and no error; the
// error only comes from the first Write. Nothing is written to the image (that part of C11 holds and is proved).
package fat12

import (
	"os"
	"testing"

	"github.com/diskfs/go-diskfs/backend/file"
)

func TestVerifReplay_D25(t *testing.T) {
	f, err := os.CreateTemp("", "verif_d25")
	if err != nil {
		t.Fatal(err)
	}
	defer os.Remove(f.Name())
	defer f.Close()
	const size = 1440 * 1024
	if err := f.Truncate(size); err != nil {
		t.Fatal(err)
	}
	rw, err := Create(file.New(f, false), size, 0, 512, "D25", true)
	if err != nil {
		t.Fatal(err)
	}
	h, err := rw.OpenFile("/a.txt", os.O_CREATE|os.O_RDWR)
	if err != nil {
		t.Fatal(err)
	}
	if _, err := h.Write([]byte("hello")); err != nil {
		t.Fatal(err)
	}
	ro, err := Read(file.New(f, true), size, 0, 512)
	if err != nil {
		t.Fatal(err)
	}
	if _, err := ro.OpenFile("/a.txt", os.O_RDWR); err == nil {
		t.Errorf("VIOLATION C11: OpenFile(O_RDWR) on a read-only backend returned no error")
	}
}
