// replay: package=filesystem/ext4
// finding: D37  property: C18
// obligations (zero-annotation sweep): ext4.parseExtents/bounds#13.. (entry count from the node header unchecked),
//              ext4.parseDirEntriesLinear/bounds#2.. and termination (record length from the entry unchecked)
// (a) parseExtents loops over the entry count stored in the extent node header without comparing it with the bytes it
//     was given: an inode claiming 100 extents in its 60-byte area panics (slice bounds out of range).
// (b) parseDirEntriesLinear slices each record by the record length stored in it: a length past the end of the block
//     slices out of range and panics.
package ext4

import (
	"encoding/binary"
	"testing"
	"time"
)

func TestVerifReplay_D37_Extents(t *testing.T) {
	defer func() {
		if r := recover(); r != nil {
			t.Errorf("VIOLATION C18: parseExtents panicked on an entry count larger than the node: %v", r)
		}
	}()
	b := make([]byte, 60)
	binary.LittleEndian.PutUint16(b[0:2], 0xf30a) // magic
	binary.LittleEndian.PutUint16(b[2:4], 100)    // entries
	binary.LittleEndian.PutUint16(b[4:6], 4)      // max
	if _, err := parseExtents(b, 1024, 0, 10); err == nil {
		t.Errorf("VIOLATION C18: parseExtents accepted 100 entries in a 60-byte node")
	}
}

func TestVerifReplay_D37_DirEntries(t *testing.T) {
	done := make(chan error, 1)
	go func() {
		defer func() {
			if r := recover(); r != nil {
				done <- nil
				t.Errorf("VIOLATION C18: parseDirEntriesLinear panicked: %v", r)
			}
		}()
		b := make([]byte, 1024)
		binary.LittleEndian.PutUint32(b[0:4], 2)
		binary.LittleEndian.PutUint16(b[4:6], 12) // first entry: length 12
		b[6] = 1
		b[8] = '.'
		// second entry at offset 12: record length 2000, past the end of the 1024-byte block
		binary.LittleEndian.PutUint32(b[12:16], 2)
		binary.LittleEndian.PutUint16(b[16:18], 2000)
		_, err := parseDirEntriesLinear(b, false, 1024, 2, 0, 0)
		done <- err
	}()
	select {
	case err := <-done:
		if err == nil {
			t.Errorf("VIOLATION C18: a directory block with a record running past the block was accepted")
		}
	case <-time.After(3 * time.Second):
		t.Errorf("VIOLATION C18: parseDirEntriesLinear did not return within 3 s")
	}
}
