// replay: package=partition/gpt
// finding: D4  property: C15
// obligations: gpt.loadEntries/alloc#1 (negative length => panic), gpt.loadEntries/allocsize#1 (allocation out of proportion)
// The entry count and entry size of a CRC-valid header are multiplied and handed to make() unchecked.
package gpt

import (
	"encoding/binary"
	"hash/crc32"
	"runtime"
	"testing"
)

func verifHeader(count, entrySize uint32) []byte {
	img := make([]byte, 64*512)
	h := img[512:1024]
	copy(h[0:8], "EFI PART")
	copy(h[8:12], []byte{0, 0, 1, 0})
	binary.LittleEndian.PutUint32(h[12:16], 92)
	binary.LittleEndian.PutUint64(h[24:32], 1)
	binary.LittleEndian.PutUint64(h[32:40], 63)
	binary.LittleEndian.PutUint64(h[40:48], 34)
	binary.LittleEndian.PutUint64(h[48:56], 30)
	copy(h[56:72], []byte{1, 2, 3, 4, 5, 6, 7, 8, 9, 10, 11, 12, 13, 14, 15, 16})
	binary.LittleEndian.PutUint64(h[72:80], 2)
	binary.LittleEndian.PutUint32(h[80:84], count)
	binary.LittleEndian.PutUint32(h[84:88], entrySize)
	binary.LittleEndian.PutUint32(h[16:20], crc32.ChecksumIEEE(h[0:92]))
	return img
}

func TestVerifReplay_D4(t *testing.T) {
	// (a) count*size negative as an int: makeslice panics
	func() {
		defer func() {
			if r := recover(); r != nil {
				t.Errorf("VIOLATION C15: gpt.Read panicked on a CRC-valid header: %v", r)
			}
		}()
		dev := &verifMem{Data: verifHeader(0xFFFFFFFF, 0xFFFFFFFF)}
		_, _ = Read(dev, 512, 512)
	}()
	// (b) a 32 KiB device whose header asks for a 1 GiB array
	func() {
		defer func() { _ = recover() }()
		var before, after runtime.MemStats
		runtime.ReadMemStats(&before)
		dev := &verifMem{Data: verifHeader(1<<23, 128)}
		_, _ = Read(dev, 512, 512)
		runtime.ReadMemStats(&after)
		if grew := after.TotalAlloc - before.TotalAlloc; grew > 64<<20 {
			t.Errorf("VIOLATION C15: reading the table of a 32 KiB device allocated %d MiB", grew>>20)
		}
	}()
}
