// replay: package=filesystem/fat12
// finding: D42  property: C18
// obligation: fat12.(*File).Read/bounds (file.go: clusters[clusterIndex]) once the "chain covers the size" precondition of the
//             C10 contract is dropped
// The size of a file comes from its directory entry, the clusters from the FAT. Read trusted the two to agree: with a chain
// that ends early (one FAT entry damaged to end-of-chain) a Read that starts beyond the last cluster of the chain indexed
// the cluster list out of range. (Reported as a side remark by a mutation sub-agent; shared by FAT12/16/32.)
package fat12

import (
	"io"
	"os"
	"testing"

	"github.com/diskfs/go-diskfs/backend/file"
)

func TestVerifReplay_D42(t *testing.T) {
	f, err := os.CreateTemp("", "fat12")
	if err != nil {
		t.Fatal(err)
	}
	defer os.Remove(f.Name())
	_ = f.Truncate(4 << 20)
	fs, err := Create(file.New(f, false), 4<<20, 0, 512, "x", true)
	if err != nil {
		t.Fatal(err)
	}
	fl, err := fs.OpenFile("/a.txt", os.O_CREATE|os.O_RDWR)
	if err != nil {
		t.Fatal(err)
	}
	bpc := int(fs.bytesPerCluster)
	if _, err := fl.Write(make([]byte, 3*bpc)); err != nil {
		t.Fatal(err)
	}
	ff := fl.(*File)
	// damage: the first cluster of the file becomes the end of its chain; the directory entry still says three clusters
	fs.table.SetCluster(ff.clusterLocation, fs.table.EOCMarker())
	if _, err := fl.Seek(0, io.SeekStart); err != nil {
		t.Fatal(err)
	}
	defer func() {
		if r := recover(); r != nil {
			t.Errorf("VIOLATION C18: reading a file whose cluster chain is shorter than its size panicked: %v", r)
		}
	}()
	buf := make([]byte, bpc)
	total := 0
	for i := 0; i < 10; i++ {
		n, err := fl.Read(buf)
		total += n
		if err != nil {
			return
		}
		if n == 0 {
			t.Errorf("VIOLATION C18: Read returned 0 bytes and no error on a chain shorter than the file size (a reader looping until EOF never ends)")
			return
		}
	}
	t.Errorf("VIOLATION C18: ten cluster-sized reads of a three-cluster file did not reach EOF or an error (%d bytes)", total)
}
