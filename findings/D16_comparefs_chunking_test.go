// replay: package=sync
// finding: D16  property: C16
// obligation: sync.compareFileContents/ret-assert#truth
// CompareFS must return nil when two trees have the same contents. compareFileContents compares the two files Read by
// Read and reports "content mismatch" as soon as the two Reads return different byte counts - which io.Reader permits
// for equal streams (the library's own ext4, FAT and squashfs handles chunk differently). Two identical files whose
// readers deliver 1000 and 4096 bytes per call are reported as different.
package sync

import (
	"io"
	"io/fs"
	"testing"
	"testing/fstest"
)

type verifChunkFS struct {
	fs.FS
	chunk int
}

type verifChunkFile struct {
	fs.File
	chunk int
}

func (c verifChunkFS) Open(name string) (fs.File, error) {
	f, err := c.FS.Open(name)
	if err != nil {
		return nil, err
	}
	return verifChunkFile{f, c.chunk}, nil
}

func (c verifChunkFile) Read(p []byte) (int, error) {
	if len(p) > c.chunk {
		p = p[:c.chunk]
	}
	return c.File.Read(p)
}

var _ io.Reader = verifChunkFile{}

func TestVerifReplay_D16(t *testing.T) {
	data := make([]byte, 10000)
	for i := range data {
		data[i] = byte(i * 7)
	}
	m := fstest.MapFS{"a.bin": &fstest.MapFile{Data: data}}
	if err := compareFileContents(verifChunkFS{m, 1000}, verifChunkFS{m, 4096}, "a.bin"); err != nil {
		t.Errorf("VIOLATION C16: identical files read in different chunk sizes are reported as different: %v", err)
	}
}
