// replay: package=partition/gpt
// finding: D3  property: C02 (also C15-style panic freedom of the encoder)
// obligation: gpt.(*Partition).toBytes/bounds#13
// toBytes checks the name length in runes (<= 36) but writes UTF-16 code units; 36 runes outside the BMP are 72 units,
// and the 37th unit is written at b[130:132] of a 128-byte entry: slice bounds out of range.
package gpt

import (
	"strings"
	"testing"
)

func TestVerifReplay_D3(t *testing.T) {
	p := &Partition{Start: 2048, End: 4095, Type: LinuxFilesystem, GUID: "5CA3360B-5DE6-4FCF-B4CE-419CEE433B51",
		Name: strings.Repeat("\U0001F600", 36)}
	defer func() {
		if r := recover(); r != nil {
			t.Errorf("VIOLATION C02: toBytes panicked on a 36-rune name: %v", r)
		}
	}()
	b, err := p.toBytes()
	if err == nil && len(b) != 128 {
		t.Errorf("VIOLATION C02: toBytes returned %d bytes", len(b))
	}
}
