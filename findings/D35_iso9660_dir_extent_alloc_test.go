// replay: package=filesystem/iso9660
// finding: D35  property: C18
// obligation: allocation bound of iso9660 directory reads (make([]byte, size) with size taken from a directory record)
// readDirectoryPVD, readDirectoryJoliet and directoryEntry.getLocation allocate a buffer of the size stored in a directory
// record before reading it: a corrupted 32-bit size makes a listing of a 1 MiB image allocate gigabytes.
package iso9660

import (
	"errors"
	"runtime"
	"testing"
)

type verifD35Backend struct{ verifStorage }

func (verifD35Backend) ReadAt(p []byte, off int64) (int, error) { return 0, errors.New("short device") }

func TestVerifReplay_D35(t *testing.T) {
	fs := &FileSystem{blocksize: 2048, size: 1 << 20, backend: verifD35Backend{}}
	root := &directoryEntry{location: 20, size: 0xC0000000, filesystem: fs, isSubdirectory: true}
	var before, after runtime.MemStats
	runtime.ReadMemStats(&before)
	_, _, err := root.getLocation("a/b")
	runtime.ReadMemStats(&after)
	if err == nil {
		t.Errorf("VIOLATION C18: a directory extent of 3 GiB on a 1 MiB volume was accepted")
	}
	if grown := after.TotalAlloc - before.TotalAlloc; grown > 1<<30 {
		t.Errorf("VIOLATION C18: walking a directory of a 1 MiB volume allocated %d MiB (size field of the directory record used unchecked)", grown>>20)
	}
}
