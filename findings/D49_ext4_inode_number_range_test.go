// replay: package=filesystem/ext4
// finding: D49  property: C18
// obligations: ext4.(*FileSystem).readInodeRaw/bounds#1 (descriptors[bg]), div#1 ((inodeNumber-1) / inodesPerGroup)
// Inode numbers come from directory entries of the image, the number of inodes per group from the superblock. readInodeRaw
// used the group index (inode-1)/inodesPerGroup without comparing it with the number of group descriptors and divided by
// an inodes-per-group field of zero: a directory entry naming an inode beyond the last group, or a superblock with zero
// inodes per group, panicked on the first lookup.
package ext4

import "testing"

func TestVerifReplay_D49(t *testing.T) {
	mem := &verifMem{Data: make([]byte, 1<<20)}
	newFS := func(inodesPerGroup uint32) *FileSystem {
		return &FileSystem{
			superblock:       &superblock{blockSize: 1024, inodeSize: 256, inodesPerGroup: inodesPerGroup, inodeCount: 16, blockCount: 1024, blocksPerGroup: 8192},
			groupDescriptors: &groupDescriptors{descriptors: []groupDescriptor{{inodeTableLocation: 10}}},
			size:             1 << 20,
			backend:          verifDisk{mem},
		}
	}
	t.Run("inode beyond the last group", func(t *testing.T) {
		defer func() {
			if r := recover(); r != nil {
				t.Errorf("VIOLATION C18: readInode(1000) on a filesystem of 16 inodes panicked: %v", r)
			}
		}()
		if _, err := newFS(16).readInode(1000); err == nil {
			t.Errorf("VIOLATION C18: readInode(1000) on a filesystem of 16 inodes returned no error")
		}
	})
	t.Run("zero inodes per group", func(t *testing.T) {
		defer func() {
			if r := recover(); r != nil {
				t.Errorf("VIOLATION C18: readInode(2) with zero inodes per group in the superblock panicked: %v", r)
			}
		}()
		if _, err := newFS(0).readInode(2); err == nil {
			t.Errorf("VIOLATION C18: readInode(2) with zero inodes per group returned no error")
		}
	})
}
