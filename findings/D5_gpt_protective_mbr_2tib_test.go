// replay: package=partition/gpt
// finding: D5  property: C02
// obligation: gpt.(*Table).generateProtectiveMBR/post#size
// On a disk of more than 2^32 sectors the protective MBR's size field must be 0xFFFFFFFF (UEFI 5.2.3); the code stored
// uint32(lastLBA), i.e. the low 32 bits — a protective entry that covers only a fraction of the disk.
package gpt

import (
	"encoding/binary"
	"testing"
)

func TestVerifReplay_D5(t *testing.T) {
	tbl := &Table{LogicalSectorSize: 512, PhysicalSectorSize: 512, ProtectiveMBR: true}
	tbl.secondaryHeader = 1<<32 + 5 // a little over 2 TiB
	b := tbl.generateProtectiveMBR()
	got := binary.LittleEndian.Uint32(b[458:462])
	if got != 0xFFFFFFFF {
		t.Errorf("VIOLATION C02: protective MBR size field is %#x on a disk with last LBA %#x, want 0xFFFFFFFF", got, tbl.secondaryHeader)
	}
}
