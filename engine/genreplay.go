package main

import (
	"bytes"
	"fmt"
	"go/types"
	"math/big"
	"os/exec"
	"regexp"
	"strings"
	"time"
)

// genReplay turns the solver's model of a failed run-time-check obligation into a Go test that calls the real function
// with the model's arguments and fails if the function panics. Supported: package-level functions whose parameters are
// integers, booleans, strings and []byte (the decoders). Anything else: no replay (the caller falls back to the note).
func genReplay(P *Program, r *FnResult, o *Obligation, prop string) (string, bool) {
	switch o.Kind {
	case "bounds", "nil", "div", "shift", "typeassert", "panic":
	default:
		return "", false
	}
	if o.Inlined && strings.Contains(o.Name, "/") {
		// the failing check sits in an inlined callee: the arguments of the function under contract still reproduce it
	}
	fn := r.Fn
	if fn == nil || fn.Signature.Recv() != nil || fn.Parent() != nil || r.tr == nil || o.ModelScript == "" {
		return "", false
	}
	pkgPath := fn.Pkg.Pkg.Path()
	if !strings.HasPrefix(pkgPath, modPath) {
		return "", false
	}
	pkgDir := strings.TrimPrefix(strings.TrimPrefix(pkgPath, modPath), "/")
	if pkgDir == "" {
		pkgDir = "."
	}
	const maxBytes = 600
	type pinfo struct {
		name  string
		kind  string // int, bool, bytes, string
		typ   types.Type
		leafs []*Term
	}
	var ps []pinfo
	var defs, names []string
	script := o.ModelScript
	declared := func(n string) bool {
		return strings.Contains(script, "(declare-const "+n+" ") || strings.Contains(script, "(declare-fun "+n+" ")
	}
	extraDecl := ""
	for _, p := range fn.Params {
		ev, ok := r.tr.topParams[p.Name()]
		if !ok {
			return "", false
		}
		pi := pinfo{name: p.Name(), typ: p.Type(), leafs: ev.V}
		switch u := p.Type().Underlying().(type) {
		case *types.Basic:
			switch {
			case u.Info()&types.IsInteger != 0:
				pi.kind = "int"
			case u.Info()&types.IsBoolean != 0:
				pi.kind = "bool"
			case u.Info()&types.IsString != 0:
				pi.kind = "string"
			default:
				return "", false
			}
		case *types.Slice:
			if b, ok := u.Elem().Underlying().(*types.Basic); ok && b.Kind() == types.Uint8 {
				pi.kind = "bytes"
			} else {
				pi.kind = "zero" // best effort: other slices, pointers, interfaces, maps are passed as nil
			}
		case *types.Pointer, *types.Interface, *types.Map, *types.Signature:
			pi.kind = "zero"
		default:
			return "", false
		}
		if pi.kind == "zero" {
			ps = append(ps, pi)
			continue
		}
		for _, l := range ev.V {
			if l.Op != "var" {
				return "", false
			}
			if !declared(l.Name) {
				extraDecl += fmt.Sprintf("(declare-const %s %s)\n", l.Name, l.S.String())
			}
			names = append(names, l.Name)
		}
		if pi.kind == "bytes" {
			if !declared("E.H8") {
				extraDecl += "(declare-const E.H8 (Array (_ BitVec 64) (Array (_ BitVec 64) (_ BitVec 8))))\n"
				script = extraDecl + script
				extraDecl = ""
			}
			for i := 0; i < maxBytes; i++ {
				n := fmt.Sprintf("vgo_%s_%d", sanitize(pi.name), i)
				defs = append(defs, fmt.Sprintf("(define-fun %s () (_ BitVec 8) (select (select E.H8 %s) (bvadd %s #x%016x)))", n, ev.V[0].Name, ev.V[1].Name, i))
				names = append(names, n)
			}
		}
		ps = append(ps, pi)
	}
	script = extraDecl + script
	vals := queryValues(script, strings.Join(defs, "\n"), names, o.ModelQuant)
	if vals == nil {
		return "", false
	}
	num := func(n string) (*big.Int, bool) {
		v, ok := vals[n]
		if !ok {
			return nil, false
		}
		switch {
		case strings.HasPrefix(v, "#x"):
			x, ok := new(big.Int).SetString(v[2:], 16)
			return x, ok
		case strings.HasPrefix(v, "#b"):
			x, ok := new(big.Int).SetString(v[2:], 2)
			return x, ok
		}
		return nil, false
	}
	var decl []string
	var args []string
	for _, pi := range ps {
		switch pi.kind {
		case "zero":
			args = append(args, "nil")
		case "bool":
			args = append(args, vals[pi.leafs[0].Name])
		case "int":
			x, ok := num(pi.leafs[0].Name)
			if !ok {
				return "", false
			}
			w := pi.leafs[0].S.W
			b := pi.typ.Underlying().(*types.Basic)
			if b.Info()&types.IsUnsigned == 0 {
				x = signedVal(w, x)
			}
			args = append(args, fmt.Sprintf("%s(%s)", types.TypeString(pi.typ, types.RelativeTo(fn.Pkg.Pkg)), x.String()))
		case "string":
			ln, ok := num(pi.leafs[1].Name)
			if !ok || !ln.IsInt64() || ln.Int64() > 1<<16 {
				return "", false
			}
			args = append(args, fmt.Sprintf("strings.Repeat(\"A\", %d)", ln.Int64()))
		case "bytes":
			ln, ok := num(pi.leafs[2].Name)
			reg, ok2 := num(pi.leafs[0].Name)
			if !ok || !ok2 || !ln.IsInt64() || ln.Int64() > 1<<20 {
				return "", false
			}
			if reg.Sign() == 0 {
				args = append(args, "[]byte(nil)")
				continue
			}
			n := int(ln.Int64())
			var bs []string
			for i := 0; i < n && i < maxBytes; i++ {
				x, ok := num(fmt.Sprintf("vgo_%s_%d", sanitize(pi.name), i))
				if !ok {
					x = big.NewInt(0)
				}
				bs = append(bs, fmt.Sprintf("0x%02x", x.Int64()))
			}
			v := "verifArg_" + sanitize(pi.name)
			decl = append(decl, fmt.Sprintf("\t%s := make([]byte, %d)\n\tcopy(%s, []byte{%s})", v, n, v, strings.Join(bs, ", ")))
			args = append(args, v)
		}
	}
	needStrings := false
	for _, a := range args {
		if strings.Contains(a, "strings.Repeat") {
			needStrings = true
		}
	}
	var sb strings.Builder
	fmt.Fprintf(&sb, "// replay: package=%s\n", pkgDir)
	fmt.Fprintf(&sb, "// generated from the solver's model of the failed obligation %s/%s (%s) of property %s\n", r.Name, o.Name, o.Desc, prop)
	fmt.Fprintf(&sb, "// the test calls the real function with the model's arguments and fails if it panics\n")
	fmt.Fprintf(&sb, "package %s\n\nimport (\n", fn.Pkg.Pkg.Name())
	if needStrings {
		fmt.Fprintf(&sb, "\t\"strings\"\n")
	}
	fmt.Fprintf(&sb, "\t\"testing\"\n)\n\n")
	fmt.Fprintf(&sb, "func TestVerifReplay_Model(t *testing.T) {\n")
	fmt.Fprintf(&sb, "\tdefer func() {\n\t\tif r := recover(); r != nil {\n\t\t\tt.Errorf(\"VIOLATION %s: %s panicked on the verifier's counterexample: %%v\", r)\n\t\t}\n\t}()\n", prop, r.Name)
	for _, d := range decl {
		fmt.Fprintf(&sb, "%s\n", d)
	}
	fmt.Fprintf(&sb, "\t%s(%s)\n}\n", fn.Name(), strings.Join(args, ", "))
	return sb.String(), true
}

var gvRe = regexp.MustCompile(`\(([^\s()]+)\s+(#x[0-9a-fA-F]+|#b[01]+|true|false)\)`)

// queryValues re-runs the satisfiable query with extra definitions and returns the values of the given names.
func queryValues(script, defs string, names []string, quant bool) map[string]string {
	sc := solvers[0]
	args := sc.Cmd(20000, quant)
	cmd := exec.Command(args[0], args[1:]...)
	in := "(set-option :produce-models true)\n" + sc.Head(20000, quant) + script + defs + "\n(check-sat)\n(get-value (" + strings.Join(names, " ") + "))\n"
	cmd.Stdin = strings.NewReader(in)
	var out bytes.Buffer
	cmd.Stdout = &out
	done := make(chan struct{})
	go func() { _ = cmd.Run(); close(done) }()
	select {
	case <-done:
	case <-time.After(25 * time.Second):
		if cmd.Process != nil {
			_ = cmd.Process.Kill()
		}
		<-done
	}
	if !strings.HasPrefix(strings.TrimSpace(out.String()), "sat") {
		return nil
	}
	m := map[string]string{}
	for _, mm := range gvRe.FindAllStringSubmatch(out.String(), -1) {
		m[mm[1]] = mm[2]
	}
	return m
}
