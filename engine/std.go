package main

// Models of standard-library and third-party functions (the trusted base), and ghost maps.

import (
	"fmt"
	"go/constant"
	"go/token"
	"go/types"
	"strings"

	"golang.org/x/tools/go/ssa"
)

// stdEffects: for loop havoc — indices of arguments whose memory a modelled foreign function writes; nil = not modelled here.
func stdEffects(name string) []int {
	switch name {
	case "bytes.Equal", "errors.New", "fmt.Errorf", "fmt.Sprintf", "hash/crc32.ChecksumIEEE", "errors.Is", "errors.As",
		"github.com/google/uuid.Parse", "github.com/google/uuid.FromBytes", "(github.com/google/uuid.UUID).String", "github.com/google/uuid.NewRandom",
		"unicode/utf16.Encode", "unicode/utf16.Decode", "strings.ToUpper", "strings.ToLower", "time.Now", "os.Getenv",
		"(*sync.Mutex).Lock", "(*sync.Mutex).Unlock", "(*sync.RWMutex).Lock", "(*sync.RWMutex).Unlock", "(*sync.RWMutex).RLock", "(*sync.RWMutex).RUnlock":
		return []int{}
	case "io.ReadFull":
		return []int{1}
	}
	return nil
}

// errors.As targets used in the repository (dynamic types that errors.As looks for); each gets a ghost chain predicate.
func (P *Program) errAsTargets() []types.Type {
	P.immutMu.Lock()
	defer P.immutMu.Unlock()
	if P.asTargets != nil {
		return P.asTargets
	}
	P.asTargets = []types.Type{}
	seen := map[string]bool{}
	for fn := range P.allRepoFuncs() {
		for _, b := range fn.Blocks {
			for _, in := range b.Instrs {
				call, ok := in.(*ssa.Call)
				if !ok {
					continue
				}
				sf := call.Common().StaticCallee()
				if sf == nil || sf.String() != "errors.As" || len(call.Common().Args) < 2 {
					continue
				}
				if t := errAsTarget(call.Common().Args[1]); t != nil && !seen[t.String()] {
					seen[t.String()] = true
					P.asTargets = append(P.asTargets, t)
				}
			}
		}
	}
	return P.asTargets
}

// errAsTarget: the type T such that errors.As(err, target) looks for a T in the chain (target has type *T).
func errAsTarget(v ssa.Value) types.Type {
	if mi, ok := v.(*ssa.MakeInterface); ok {
		if pt, ok := mi.X.Type().Underlying().(*types.Pointer); ok {
			return pt.Elem()
		}
	}
	return nil
}

func errHasName(t types.Type) string {
	return "err_has_" + sanitize(fmt.Sprintf("%x", strHash(types.TypeString(t, nil))))
}

func (tr *Tr) errHas(t types.Type, e Val) *Term {
	return tr.f.App(errHasName(t), SBool, e[0], e[1], e[2])
}

// errChainFacts: facts about a freshly created error value e: which errors.As targets its chain contains.
func (tr *Tr) errChainFacts(e Val, self types.Type, wrapped Val) {
	for _, t := range tr.P.errAsTargets() {
		switch {
		case self != nil && types.Identical(self, t):
			tr.assumeHere(tr.errHas(t, e), "error value has its own dynamic type in its chain")
		case wrapped != nil:
			tr.assumeHere(tr.f.Eq(tr.errHas(t, e), tr.f.And(tr.f.Neq(wrapped[0], tr.f.BVi(64, 0)), tr.errHas(t, wrapped))), "wrapping preserves the error chain (errors.As)")
		default:
			tr.assumeHere(tr.f.Not(tr.errHas(t, e)), "a plain error has no "+t.String()+" in its chain")
		}
	}
}

func (tr *Tr) errValue(fr *Frame, kind string) Val {
	reg := tr.allocRegion(fr.st)
	return Val{tr.f.BVu(64, typeID(types.NewPointer(types.Universe.Lookup("error").Type()))^strHash(kind)|1<<62), reg, tr.f.BVi(64, 0)}
}

func (tr *Tr) stdModel(fr *Frame, site ssa.Instruction, c *ssa.CallCommon, sf *ssa.Function, args []Val, rt types.Type) (Val, bool) {
	f := tr.f
	name := sf.String()
	z := f.BVi(64, 0)
	if strings.HasPrefix(name, "(encoding/binary.littleEndian).") || strings.HasPrefix(name, "(encoding/binary.bigEndian).") {
		m := sf.Name()
		little := strings.Contains(name, "littleEndian")
		need := map[string]int{"Uint16": 2, "Uint32": 4, "Uint64": 8, "PutUint16": 2, "PutUint32": 4, "PutUint64": 8}[m]
		if need > 0 && len(args) >= 2 {
			s := args[1]
			tr.oblige("bounds", site.Pos(), f.SLe(f.BVi(64, int64(need)), s[2]), fmt.Sprintf("binary.%s on a short slice", m))
			tr.trust("encoding/binary fixed-width get/put")
			if strings.HasPrefix(m, "Put") {
				v := args[2][0]
				for k := 0; k < need; k++ {
					var b *Term
					if little {
						b = f.Extract(8*k+7, 8*k, v)
					} else {
						b = f.Extract(8*(need-1-k)+7, 8*(need-1-k), v)
					}
					tr.heapStore(fr.st, S8, s[0], f.AddC(s[1], int64(k)), b)
				}
				return nil, true
			}
			var t *Term
			for k := 0; k < need; k++ {
				b := tr.heapSel(fr.st, S8, s[0], f.AddC(s[1], int64(k)))
				if t == nil {
					t = b
				} else if little {
					t = f.Concat(b, t)
				} else {
					t = f.Concat(t, b)
				}
			}
			return Val{t}, true
		}
	}
	if strings.HasSuffix(name, "/partition/gpt.reverseSlice") && len(args) == 1 {
		// reflect-based in-place reversal of a slice passed as interface{}: modelled natively (trusted; reflect is outside the subset)
		tr.trust("gpt.reverseSlice (reflect.Swapper): reverses the slice in place")
		mi, ok := c.Args[0].(*ssa.MakeInterface)
		if ok && isSlice(mi.X.Type()) {
			sl := tr.val(mi.X)
			et := elemType(mi.X.Type())
			keys := keysOfType(et)
			m := int64(nleaves(et))
			n := tr.constOf(sl[2])
			if n != nil && n.Val.IsInt64() && n.Val.Int64() <= 64 && m == 1 {
				k := n.Val.Int64()
				for _, key := range keys {
					old := tr.inner(fr.st, key, sl[0])
					d := old
					for i := int64(0); i < k; i++ {
						d = f.Store(d, f.AddC(sl[1], i), f.Select(old, f.AddC(sl[1], k-1-i)))
					}
					tr.setInner(fr.st, key, sl[0], d)
				}
				return nil, true
			}
			tr.havocRegionKeys(fr.st, sl[0], keys)
			tr.note("reverseSlice on a slice of unknown length (region havocked)")
			return nil, true
		}
	}
	switch name {
	case "bytes.Equal":
		a, b := args[0], args[1]
		tr.trust("bytes.Equal")
		return Val{tr.bytesEqual(fr.st, a, b)}, true
	case "errors.New":
		tr.trust("errors.New returns a fresh non-nil error")
		e := tr.errValue(fr, "errors.New")
		tr.errChainFacts(e, nil, nil)
		return e, true
	case "fmt.Errorf":
		tr.trust("fmt.Errorf returns a fresh non-nil error; %w keeps the wrapped chain")
		e := tr.errValue(fr, "fmt.Errorf")
		if w := tr.wrappedOperand(c); w != nil {
			wv := tr.val(w)
			if len(wv) == 3 {
				tr.errChainFacts(e, nil, wv)
			}
		} else {
			tr.errChainFacts(e, nil, nil)
		}
		return e, true
	case "errors.As":
		// errors.As(err, &target): modelled for targets of pointer-to-struct type in this repository via the ghost chain predicate
		tr.trust("errors.As decided on the ghost error-chain predicate")
		e := args[0]
		if t := errAsTarget(c.Args[1]); t != nil {
			// the target variable is written on success
			tr.havocReachable(fr.st, c.Args[1].Type(), args[1])
			return Val{f.And(f.Neq(e[0], z), tr.errHas(t, e))}, true
		}
		return Val{f.Fresh("errors_as", SBool)}, true
	case "errors.Is":
		return Val{f.App("errors_is", SBool, args[0][0], args[0][1], args[1][0], args[1][1])}, true
	case "fmt.Sprintf", "fmt.Sprint", "fmt.Sprintln":
		tr.bumpAlloc(fr.st)
		id := f.Fresh("sprintf", S64)
		return tr.strOf(id), true
	case "hash/crc32.ChecksumIEEE":
		tr.trust("hash/crc32.ChecksumIEEE as an uninterpreted function of the byte sequence")
		return Val{tr.crc32Of(fr.st, args[0])}, true
	case "github.com/google/uuid.Parse":
		tr.trust("uuid.Parse: deterministic function of the string")
		s := args[0]
		out := make(Val, 0, 19)
		for i := 0; i < 16; i++ {
			out = append(out, f.App(fmt.Sprintf("uuid_parse_%d", i), S8, s[0]))
		}
		ok := f.App("uuid_parse_ok", SBool, s[0])
		e := tr.errValue(fr, "uuid.Parse")
		return append(out, f.Ite(ok, z, e[0]), f.Ite(ok, z, e[1]), z), true
	case "github.com/google/uuid.FromBytes":
		tr.trust("uuid.FromBytes: error iff len != 16, else the bytes")
		b := args[0]
		ok := f.Eq(b[2], f.BVi(64, 16))
		out := make(Val, 0, 19)
		for i := 0; i < 16; i++ {
			out = append(out, f.Ite(ok, tr.heapSel(fr.st, S8, b[0], f.AddC(b[1], int64(i))), f.BVi(8, 0)))
		}
		e := tr.errValue(fr, "uuid.FromBytes")
		return append(out, f.Ite(ok, z, e[0]), f.Ite(ok, z, e[1]), z), true
	case "(github.com/google/uuid.UUID).String":
		tr.trust("uuid.UUID.String: injective deterministic function of the 16 bytes")
		var t *Term
		for _, b := range args[0] {
			if t == nil {
				t = b
			} else {
				t = f.Concat(t, b)
			}
		}
		id := f.App("uuid_string", S64, t)
		tr.assume(f.Neq(id, z), "uuid string is not empty")
		return Val{id, f.BVi(64, 36)}, true
	case "github.com/google/uuid.NewRandom", "github.com/google/uuid.New", "github.com/google/uuid.NewString", "github.com/google/uuid.NewUUID":
		tr.effect(fr, site, "random")
		return tr.freshVal(rt, "uuid_random"), true
	case "(time.Time).Year", "(time.Time).Day", "(time.Time).Hour", "(time.Time).Minute", "(time.Time).Second", "(time.Time).Month":
		// calendar fields of a time value: deterministic functions of the value, within their calendar ranges
		tr.trust("time.Time calendar accessors (Year, Month, Day, Hour, Minute, Second): deterministic functions of the value, in range")
		return Val{tr.timeField(sf.Name(), args[0])}, true
	case "time.Now", "time.Since", "time.Until":
		tr.effect(fr, site, "clock")
		return tr.freshVal(rt, "time_now"), true
	case "os.Getenv", "os.LookupEnv", "os.Environ":
		tr.effect(fr, site, "env")
		return tr.freshVal(rt, "getenv"), true
	case "strings.ToUpper", "strings.ToLower":
		id := f.App(sanitize(name), S64, args[0][0])
		ln := f.App("strlen", S64, id)
		tr.assume(f.And(f.SLe(z, ln), f.SLe(ln, tr.maxLen), f.Eq(f.Eq(id, z), f.Eq(ln, z)), f.Eq(f.Eq(id, z), f.Eq(args[0][0], z))), "ToUpper/ToLower header")
		return Val{id, ln}, true
	case "unicode/utf16.Encode":
		tr.trust("utf16.Encode: len(in) <= len(out) <= 2*len(in)")
		in := args[0]
		reg := tr.allocRegion(fr.st)
		tr.setInner(fr.st, "16", reg, f.App("utf16_encode", ArrS(S64, S16), tr.inner(fr.st, "32", in[0]), in[1], in[2]))
		ln := f.App("utf16_encode_len", S64, tr.inner(fr.st, "32", in[0]), in[1], in[2])
		tr.assume(f.And(f.SLe(in[2], ln), f.SLe(ln, f.Mul(in[2], f.BVi(64, 2)))), "utf16.Encode length")
		return Val{reg, z, ln, ln}, true
	case "unicode/utf16.Decode":
		tr.trust("utf16.Decode: len(out) <= len(in)")
		in := args[0]
		reg := tr.allocRegion(fr.st)
		tr.setInner(fr.st, "32", reg, f.App("utf16_decode", ArrS(S64, S32), tr.inner(fr.st, "16", in[0]), in[1], in[2]))
		ln := f.App("utf16_decode_len", S64, tr.inner(fr.st, "16", in[0]), in[1], in[2])
		tr.assume(f.And(f.SLe(z, ln), f.SLe(ln, in[2])), "utf16.Decode length")
		return Val{reg, z, ln, ln}, true
	case "(*sync.Mutex).Lock", "(*sync.RWMutex).Lock", "(*sync.RWMutex).RLock":
		tr.lockOp(fr, site, args[0], true)
		return nil, true
	case "(*sync.Mutex).Unlock", "(*sync.RWMutex).Unlock", "(*sync.RWMutex).RUnlock":
		tr.lockOp(fr, site, args[0], false)
		return nil, true
	case "io.ReadFull":
		// io.ReadFull(r, buf): n <= len(buf); err == nil iff n == len(buf); writes buf
		tr.trust("io.ReadFull: 0 <= n <= len(buf); err == nil iff n == len(buf)")
		b := args[1]
		tr.havocRegionKeys(fr.st, b[0], []string{"8"})
		n := f.Fresh("n_ReadFull", S64)
		e := tr.freshVal(types.Universe.Lookup("error").Type(), "err_ReadFull")
		tr.assume(f.And(f.SLe(z, n), f.SLe(n, b[2]), f.Eq(f.Eq(e[0], z), f.Eq(n, b[2]))), "io.ReadFull")
		rcBefore := tr.get(fr.st, "rcount")
		wcBefore := tr.get(fr.st, "wcount")
		tr.havocLog(fr.st)
		tr.set(fr.st, "wcount", wcBefore)
		if tr.usesStream() {
			// sequential-reader model: n more bytes of the stream are consumed; io.EOF means nothing was left,
			// io.ErrUnexpectedEOF that the stream ended inside the buffer
			r := args[0]
			rc := rcBefore
			pos0 := f.Select(rc, r[1])
			tr.set(fr.st, "rcount", f.Store(rc, r[1], f.Add(pos0, n)))
			sl := f.App("streamlen", S64, r[1])
			conj := []*Term{f.SLe(z, pos0), f.SLe(f.Add(pos0, n), sl), f.SLe(sl, f.BVu(64, 1<<60))}
			isErr := func(g Val) *Term { return f.And(f.Eq(e[0], g[0]), f.Eq(e[1], g[1])) }
			if eof := tr.ioEOF(); eof != nil {
				conj = append(conj, f.Implies(isErr(eof), f.And(f.Eq(n, z), f.Eq(pos0, sl))))
			}
			if ue := tr.ioGlobal("ErrUnexpectedEOF"); ue != nil {
				conj = append(conj, f.Implies(isErr(ue), f.And(f.SLt(z, n), f.SLt(n, b[2]), f.Eq(f.Add(pos0, n), sl))))
			}
			tr.assume(f.And(conj...), "io.ReadFull on a sequential reader: consumes n bytes, never past the end; io.EOF / io.ErrUnexpectedEOF exactly at the end")
			tr.trust("io.ReadFull (sequential reader): consumed grows by n; io.EOF iff nothing was left, io.ErrUnexpectedEOF iff the stream ended inside the buffer")
		}
		return append(Val{n}, e...), true
	case "io.ReadAll":
		// io.ReadAll(r): a fresh slice holding everything r delivered until EOF; one IN event of len(data) bytes
		tr.trust("io.ReadAll: returns a fresh slice with every byte the reader delivered (consumed(r) grows by len(data)); reads only")
		r := args[0]
		reg := tr.allocTyped(fr.st, types.NewSlice(types.Typ[types.Byte]))
		ln := f.Fresh("n_ReadAll", S64)
		tr.assume(f.And(f.SLe(z, ln), f.SLe(ln, tr.maxLen)), "io.ReadAll length")
		tr.setInner(fr.st, "8", reg, f.Fresh("readall", ArrS(S64, S8)))
		e := tr.freshVal(types.Universe.Lookup("error").Type(), "err_ReadAll")
		rc := tr.get(fr.st, "rcount")
		tr.logEvent(fr.st, evIn, r[1], f.Select(rc, r[1]), ln, nil, nil)
		tr.set(fr.st, "rcount", f.Store(rc, r[1], f.Add(f.Select(rc, r[1]), ln)))
		return append(Val{reg, z, ln, ln}, e...), true
	case "math.Exp2", "math.Log2", "math.Pow", "math.Ceil", "math.Floor", "math.Log":
		tr.trust("math." + sf.Name() + " as an uninterpreted function")
		as := []*Term{}
		for _, a := range args {
			as = append(as, a...)
		}
		return Val{f.App("math_"+sf.Name(), S64, as...)}, true
	}
	return nil, false
}

// wrappedOperand finds the operand consumed by %w in a constant fmt.Errorf format.
func (tr *Tr) wrappedOperand(c *ssa.CallCommon) ssa.Value {
	fc, ok := c.Args[0].(*ssa.Const)
	if !ok || fc.Value == nil || fc.Value.Kind() != constant.String {
		return nil
	}
	format := constant.StringVal(fc.Value)
	idx := -1
	n := 0
	for i := 0; i < len(format); i++ {
		if format[i] != '%' {
			continue
		}
		i++
		for i < len(format) && strings.ContainsRune("+-# 0123456789.", rune(format[i])) {
			i++
		}
		if i >= len(format) {
			break
		}
		if format[i] == '%' {
			continue
		}
		if format[i] == 'w' {
			idx = n
		}
		n++
	}
	if idx < 0 || len(c.Args) < 2 {
		return nil
	}
	sl, ok := c.Args[1].(*ssa.Slice)
	if !ok {
		return nil
	}
	al, ok := sl.X.(*ssa.Alloc)
	if !ok {
		return nil
	}
	for _, ref := range *al.Referrers() {
		ia, ok := ref.(*ssa.IndexAddr)
		if !ok {
			continue
		}
		ic, ok := ia.Index.(*ssa.Const)
		if !ok || ic.Int64() != int64(idx) {
			continue
		}
		for _, r2 := range *ia.Referrers() {
			if st, ok := r2.(*ssa.Store); ok {
				v := st.Val
				if mi, ok := v.(*ssa.MakeInterface); ok {
					if isIface(mi.X.Type()) {
						return mi.X
					}
					return nil
				}
				if ci, ok := v.(*ssa.ChangeInterface); ok {
					return ci.X
				}
				return v
			}
		}
	}
	return nil
}

func (tr *Tr) bytesEqual(st *State, a, b Val) *Term {
	f := tr.f
	lenEq := f.Eq(a[2], b[2])
	var n *Term
	if a[2].Op == "bv" {
		n = a[2]
	} else if b[2].Op == "bv" {
		n = b[2]
	}
	if n != nil && n.Val.IsInt64() && n.Val.Int64() <= 64 {
		parts := []*Term{lenEq}
		for i := int64(0); i < n.Val.Int64(); i++ {
			parts = append(parts, f.Eq(tr.heapSel(st, S8, a[0], f.AddC(a[1], i)), tr.heapSel(st, S8, b[0], f.AddC(b[1], i))))
		}
		return f.And(parts...)
	}
	i := f.BoundVar("i", S64)
	all := f.Forall([]*Term{i}, f.Implies(f.And(f.SLe(f.BVi(64, 0), i), f.SLt(i, a[2])),
		f.Eq(tr.heapSel(st, S8, a[0], f.Add(a[1], i)), tr.heapSel(st, S8, b[0], f.Add(b[1], i)))))
	return f.And(lenEq, all)
}

func (tr *Tr) crc32Of(st *State, b Val) *Term {
	return tr.f.App("crc32", S32, tr.inner(st, "8", b[0]), b[1], b[2])
}

// ---------- ghost maps

func mapKeySort(t types.Type) *Sort {
	m := t.Underlying().(*types.Map)
	ls := shape(m.Key())
	if len(ls) == 1 {
		return ls[0].S
	}
	if isString(m.Key()) {
		return S64
	}
	return nil
}

func mapComp(t types.Type, what string) string {
	return "M." + sanitize(types.TypeString(t.Underlying(), nil)) + "." + what
}

func (tr *Tr) mapDecl(t types.Type) bool {
	ks := mapKeySort(t)
	if ks == nil {
		return false
	}
	m := t.Underlying().(*types.Map)
	tr.declComp(mapComp(t, "p"), ArrS(S64, ArrS(ks, SBool)))
	tr.declComp(mapComp(t, "n"), ArrS(S64, S64))
	for i, l := range shape(m.Elem()) {
		tr.declComp(mapComp(t, fmt.Sprint(i)), ArrS(S64, ArrS(ks, l.S)))
	}
	return true
}

func (tr *Tr) mapInit(st *State, t types.Type, id *Term) {
	f := tr.f
	if !tr.mapDecl(t) {
		tr.note("map with unsupported key type " + t.String())
		return
	}
	ks := mapKeySort(t)
	p := mapComp(t, "p")
	tr.set(st, p, f.Store(tr.get(st, p), id, f.ConstArr(ArrS(ks, SBool), f.False())))
	n := mapComp(t, "n")
	tr.set(st, n, f.Store(tr.get(st, n), id, f.BVi(64, 0)))
}

func (tr *Tr) mapKey(t types.Type, k Val) *Term { return k[0] }

func (tr *Tr) mapGet(st *State, t types.Type, id *Term, k Val) (Val, *Term) {
	f := tr.f
	m := t.Underlying().(*types.Map)
	ls := shape(m.Elem())
	if !tr.mapDecl(t) {
		return tr.freshVal(m.Elem(), "mapget"), f.Fresh("mapok", SBool)
	}
	key := tr.mapKey(t, k)
	ok := f.Select(f.Select(tr.get(st, mapComp(t, "p")), id), key)
	out := make(Val, len(ls))
	for i, l := range ls {
		v := f.Select(f.Select(tr.get(st, mapComp(t, fmt.Sprint(i))), id), key)
		out[i] = f.Ite(ok, v, tr.zeroLeaf(l))
	}
	bm := map[*Term]bool{}
	bound := false
	for _, t := range out {
		if containsBound(t, bm) {
			bound = true
		}
	}
	if !bound {
		tr.assumeInv(ls, out)
	}
	return out, ok
}

func (tr *Tr) mapLen(st *State, t types.Type, id *Term) *Term {
	if !tr.mapDecl(t) {
		return tr.f.Fresh("maplen", S64)
	}
	n := tr.f.Select(tr.get(st, mapComp(t, "n")), id)
	tr.assume(tr.f.And(tr.f.SLe(tr.f.BVi(64, 0), n), tr.f.SLe(n, tr.maxLen)), "map length range")
	return n
}

func (tr *Tr) mapUpdate(fr *Frame, x *ssa.MapUpdate) {
	f := tr.f
	t := x.Map.Type()
	id := tr.val(x.Map)[0]
	tr.oblige("nil", x.Pos(), f.Neq(id, f.BVi(64, 0)), "assignment to entry in nil map")
	if !tr.mapDecl(t) {
		return
	}
	m := t.Underlying().(*types.Map)
	key := tr.mapKey(t, tr.val(x.Key))
	st := fr.st
	p := mapComp(t, "p")
	pa := f.Select(tr.get(st, p), id)
	was := f.Select(pa, key)
	tr.set(st, p, f.Store(tr.get(st, p), id, f.Store(pa, key, f.True())))
	n := mapComp(t, "n")
	cnt := f.Select(tr.get(st, n), id)
	tr.set(st, n, f.Store(tr.get(st, n), id, f.Ite(was, cnt, f.AddC(cnt, 1))))
	v := tr.val(x.Value)
	for i := range shape(m.Elem()) {
		c := mapComp(t, fmt.Sprint(i))
		va := f.Select(tr.get(st, c), id)
		tr.set(st, c, f.Store(tr.get(st, c), id, f.Store(va, key, v[i])))
	}
}

func (tr *Tr) mapDelete(fr *Frame, c *ssa.CallCommon) {
	f := tr.f
	t := c.Args[0].Type()
	if !tr.mapDecl(t) {
		return
	}
	id := tr.val(c.Args[0])[0]
	key := tr.mapKey(t, tr.val(c.Args[1]))
	st := fr.st
	p := mapComp(t, "p")
	pa := f.Select(tr.get(st, p), id)
	was := f.Select(pa, key)
	tr.set(st, p, f.Store(tr.get(st, p), id, f.Store(pa, key, f.False())))
	n := mapComp(t, "n")
	cnt := f.Select(tr.get(st, n), id)
	tr.set(st, n, f.Store(tr.get(st, n), id, f.Ite(was, f.AddC(cnt, -1), cnt)))
}

func (tr *Tr) havocMapType(st *State, t types.Type) {
	if !tr.mapDecl(t) {
		return
	}
	m := t.Underlying().(*types.Map)
	names := []string{mapComp(t, "p"), mapComp(t, "n")}
	for i := range shape(m.Elem()) {
		names = append(names, mapComp(t, fmt.Sprint(i)))
	}
	for _, n := range names {
		tr.set(st, n, tr.f.Fresh("Mhavoc", tr.compSort(n)))
	}
}

func (tr *Tr) lookup(fr *Frame, x *ssa.Lookup) Val {
	f := tr.f
	if isString(x.X.Type()) {
		i64, _ := tr.idx64(x.Index)
		s := tr.val(x.X)
		tr.oblige("bounds", x.Pos(), f.ULt(i64, s[1]), "string index out of range")
		return Val{f.Select(f.App("strbytes", ArrS(S64, S8), s[0]), i64)}
	}
	id := tr.val(x.X)[0]
	v, ok := tr.mapGet(fr.st, x.X.Type(), id, tr.val(x.Index))
	// reading a nil map is fine (zero value)
	if x.CommaOk {
		return append(v, ok)
	}
	return v
}

// ---------- locks (C17)

func (tr *Tr) lockID(reg, off *Term) *Term {
	// a mutex is identified by its address; fold into one 64-bit id: region*2^20 + offset (offsets are small)
	return tr.f.Add(tr.f.Shl(reg, tr.f.BVi(64, 20)), off)
}

func (tr *Tr) declLocks() {
	if _, ok := tr.compSorts["locks"]; !ok {
		tr.declComp("locks", ArrS(S64, SBool))
	}
}

func (tr *Tr) lockOp(fr *Frame, site ssa.Instruction, m Val, acquire bool) {
	f := tr.f
	tr.declLocks()
	id := tr.lockID(m[0], m[1])
	held := f.Select(tr.get(fr.st, "locks"), id)
	if tr.frames[0].contract != nil && tr.frames[0].contract.hasLockClauses() {
		if acquire {
			tr.obligeNamed("lock", "acquire", site.Pos(), f.Not(held), "mutex acquired while already held by this goroutine (self-deadlock)")
			tr.lockOrder(fr, site, m)
		} else {
			tr.obligeNamed("lock", "release", site.Pos(), held, "mutex released while not held")
		}
	}
	tr.set(fr.st, "locks", f.Store(tr.get(fr.st, "locks"), id, f.Bool(acquire)))
}

func (c *Contract) hasLockClauses() bool { return c != nil && c.lockMode }

func (tr *Tr) lockOrder(fr *Frame, site ssa.Instruction, m Val) {}

func (tr *Tr) lockCheckStore(fr *Frame, x *ssa.Store) {}

// ---------- allocation bound (C15/C18)

func (tr *Tr) allocBound(fr *Frame, pos token.Pos, bytes *Term) {
	top := tr.frames[0]
	if top.contract == nil || top.contract.Alloc == nil {
		return
	}
	env := tr.envFor(top, nil, tr.entry)
	env.fr = nil
	for k, pv := range tr.topParams {
		env.vars[k] = pv
	}
	v, err := env.Eval(top.contract.Alloc.Expr)
	if err != nil {
		tr.specError(*top.contract.Alloc, err)
		return
	}
	v = env.defaultType(v)
	lim := tr.f.Ext(v.V[0], 64, true)
	tr.obligeNamed("allocsize", "", pos, tr.f.And(tr.f.SLe(tr.f.BVi(64, 0), bytes), tr.f.SLe(bytes, lim)), "allocation within the declared bound: "+top.contract.Alloc.Src)
}

func (tr *Tr) assumeGlobalInv(g *ssa.Global, v Val, gi *GlobalInv) {
	t := g.Type().Underlying().(*types.Pointer).Elem()
	env := &Env{tr: tr, pkg: g.Pkg.Pkg, vars: map[string]EVal{g.Name(): {V: v, T: t}}, macros: map[string]ast_Expr{}, st: tr.curStateForGlobals()}
	for _, c := range gi.Clauses {
		tm, err := env.EvalBool(c.Expr)
		if err != nil {
			tr.specError(c, err)
			continue
		}
		tr.assume(tm, "global invariant of "+g.Name()+": "+c.Src)
		tr.note("global invariant " + g.String() + " (established by obligation global#" + g.Name() + " of the package initialiser; the variable is never reassigned and, if a map, never updated): " + c.Src)
	}
}

func isPkgInit(fn *ssa.Function) bool {
	return fn != nil && fn.Name() == "init" && fn.Parent() == nil && fn.Signature.Recv() == nil
}

// establishGlobalInv: in the package initialiser, the value stored into a global under invariant must satisfy it.
func (tr *Tr) establishGlobalInv(fr *Frame, x *ssa.Store, g *ssa.Global, v Val, gi *GlobalInv) {
	t := g.Type().Underlying().(*types.Pointer).Elem()
	env := &Env{tr: tr, pkg: g.Pkg.Pkg, vars: map[string]EVal{g.Name(): {V: v, T: t}}, macros: map[string]ast_Expr{}, st: fr.st}
	for i, c := range gi.Clauses {
		tm, err := env.EvalBool(c.Expr)
		if err != nil {
			tr.specError(c, err)
			continue
		}
		name := g.Name()
		if i > 0 {
			name = fmt.Sprintf("%s.%d", g.Name(), i)
		}
		pos := x.Pos()
		if !pos.IsValid() {
			pos = g.Pos()
		}
		tr.obligeNamed("global", name, pos, tm, "initialiser establishes the global invariant: "+c.Src)
	}
}

func (tr *Tr) curStateForGlobals() *State {
	if len(tr.frames) > 0 && tr.fr().st != nil {
		return tr.fr().st
	}
	return tr.entry
}

// timeField: the uninterpreted calendar field of a time.Time value (all its leaves are arguments), with its range.
func (tr *Tr) timeField(name string, t Val) *Term {
	f := tr.f
	var as []*Term
	for _, l := range t {
		if l.S.K == KBV && l.S.W != 64 {
			as = append(as, f.Ext(l, 64, false))
		} else if l.S.K == KBV {
			as = append(as, l)
		}
	}
	v := f.App("time_"+name, S64, as...)
	lo, hi := int64(0), int64(59)
	switch name {
	case "Year":
		lo, hi = -292277022399, 292277026596
	case "Month":
		lo, hi = 1, 12
	case "Day":
		lo, hi = 1, 31
	case "Hour":
		lo, hi = 0, 23
	}
	tr.assume(f.And(f.SLe(f.BVi(64, lo), v), f.SLe(v, f.BVi(64, hi))), "calendar range of time."+name)
	return v
}
