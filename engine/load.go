package main

import (
	"go/token"
	"fmt"
	"go/types"
	"os"
	"path/filepath"
	"sort"
	"strings"
	"sync"

	"golang.org/x/tools/go/packages"
	"golang.org/x/tools/go/ssa"
	"golang.org/x/tools/go/ssa/ssautil"
)

const modPath = "github.com/diskfs/go-diskfs"

type Program struct {
	prog      *ssa.Program
	pkgs      map[string]*ssa.Package
	tpkgs     map[string]*packages.Package
	contracts map[*ssa.Function]*Contract
	byName    map[string]*Contract // ssa function String() -> contract
	ifaceC    map[string]*Contract // "pkgpath.Type.Method"
	preds     map[string]*Pred     // "pkgpath.name" and bare name for /verif/spec preds
	globInv   map[string]*GlobalInv
	guarded   map[string]string
	files     []*ContractFile
	immutMu   sync.Mutex
	immut     map[*ssa.Global]bool
	repoDir   string
	allFns    map[*ssa.Function]bool
	storesTo  map[*ssa.Global]bool
	asTargets []types.Type
	effCache  map[string]bool
	byMethod  map[string][]*ssa.Function
	bySig     map[string][]*ssa.Function
	fieldMut  map[string]bool
	storeSets map[*ssa.Function]*storeSet
	fieldEsc  map[string]bool
	fieldFns  map[string][]*ssa.Function // struct field -> functions stored into it anywhere in the repository (nil entry: unknown value stored)
	fieldFnsUnknown map[string]bool
}

func loadProgram(repo string, patterns []string) (*Program, error) {
	cfg := &packages.Config{Mode: packages.LoadAllSyntax, Dir: repo, BuildFlags: []string{"-tags=verif"},
		Env: append(os.Environ(), "GOFLAGS=-mod=mod", "GOPROXY=off")}
	pkgs, err := packages.Load(cfg, patterns...)
	if err != nil {
		return nil, err
	}
	var errs []string
	packages.Visit(pkgs, nil, func(p *packages.Package) {
		for _, e := range p.Errors {
			if strings.HasPrefix(p.PkgPath, modPath) {
				errs = append(errs, e.Error())
			}
		}
	})
	if len(errs) > 0 {
		return nil, fmt.Errorf("package errors (the tree does not compile with -tags verif):\n%s", strings.Join(errs, "\n"))
	}
	prog, spkgs := ssautil.AllPackages(pkgs, ssa.GlobalDebug)
	_ = spkgs
	P := &Program{prog: prog, pkgs: map[string]*ssa.Package{}, tpkgs: map[string]*packages.Package{}, contracts: map[*ssa.Function]*Contract{},
		byName: map[string]*Contract{}, ifaceC: map[string]*Contract{}, preds: map[string]*Pred{}, globInv: map[string]*GlobalInv{},
		guarded: map[string]string{}, immut: map[*ssa.Global]bool{}, repoDir: repo}
	packages.Visit(pkgs, nil, func(p *packages.Package) {
		P.tpkgs[p.PkgPath] = p
	})
	for _, sp := range prog.AllPackages() {
		P.pkgs[sp.Pkg.Path()] = sp
		if strings.HasPrefix(sp.Pkg.Path(), modPath) {
			sp.Build()
		}
	}
	// dependencies are built lazily: only repo packages need bodies; foreign bodies are never inlined.
	// contract files
	for path, tp := range P.tpkgs {
		if !strings.HasPrefix(path, modPath) || len(tp.GoFiles) == 0 {
			continue
		}
		dir := filepath.Dir(tp.GoFiles[0])
		cfp := filepath.Join(dir, "zz_verif_contracts.go")
		if _, err := os.Stat(cfp); err != nil {
			continue
		}
		cf, err := parseContractFile(cfp, path)
		if err != nil {
			return nil, err
		}
		P.files = append(P.files, cf)
	}
	sort.Slice(P.files, func(i, j int) bool { return P.files[i].PkgPath < P.files[j].PkgPath })
	for _, cf := range P.files {
		for _, p := range cf.Preds {
			P.preds[cf.PkgPath+"."+p.Name] = p
		}
		for _, g := range cf.Globals {
			if old := P.globInv[cf.PkgPath+"."+g.Name]; old != nil {
				old.Clauses = append(old.Clauses, g.Clauses...)
			} else {
				P.globInv[cf.PkgPath+"."+g.Name] = g
			}
		}
		for k, v := range cf.Guarded {
			P.guarded[cf.PkgPath+"."+k] = v
		}
		for _, c := range cf.Contracts {
			if c.Iface {
				P.ifaceC[qualifyIface(cf.PkgPath, c.FnName)] = c
				continue
			}
			fn, err := P.resolveFunc(cf.PkgPath, c.FnName)
			if err != nil {
				return nil, fmt.Errorf("%s: %v", c.Where, err)
			}
			if _, dup := P.contracts[fn]; dup {
				return nil, fmt.Errorf("%s: duplicate contract for %s", c.Where, fn)
			}
			P.contracts[fn] = c
			P.byName[fn.String()] = c
		}
	}
	return P, nil
}

// "Type.Method" in the file's package, or "pkg/path.Type.Method" (e.g. io.Reader.Read)
func qualifyIface(pkgPath, name string) string {
	parts := strings.Split(name, ".")
	if len(parts) == 2 {
		return pkgPath + "." + name
	}
	return name
}

// resolveFunc maps a contract header to an SSA function.
func (P *Program) resolveFunc(pkgPath, name string) (*ssa.Function, error) {
	sp := P.pkgs[pkgPath]
	if sp == nil {
		return nil, fmt.Errorf("package %s not loaded", pkgPath)
	}
	anon := ""
	if i := strings.Index(name, "$"); i >= 0 {
		anon = name[i:]
		name = name[:i]
	}
	var fn *ssa.Function
	if strings.HasPrefix(name, "(") || strings.Contains(name, ".") {
		// method
		recv := name[:strings.LastIndex(name, ".")]
		meth := name[strings.LastIndex(name, ".")+1:]
		recv = strings.Trim(recv, "()")
		ptr := strings.HasPrefix(recv, "*")
		recv = strings.TrimPrefix(recv, "*")
		tn := sp.Type(recv)
		if tn == nil {
			return nil, fmt.Errorf("type %s.%s not found", pkgPath, recv)
		}
		var T types.Type = tn.Type()
		if ptr {
			T = types.NewPointer(T)
		}
		sel := P.prog.MethodSets.MethodSet(T).Lookup(sp.Pkg, meth)
		if sel == nil {
			return nil, fmt.Errorf("method %s not found on %s", meth, T)
		}
		fn = P.prog.MethodValue(sel)
		// wrappers for promoted/value methods: take the declared function
		if fn != nil && fn.Synthetic != "" {
			if obj, ok := sel.Obj().(*types.Func); ok {
				if d := P.prog.FuncValue(obj); d != nil {
					fn = d
				}
			}
		}
	} else {
		fn = sp.Func(name)
	}
	if fn == nil {
		return nil, fmt.Errorf("function %s.%s not found", pkgPath, name)
	}
	if anon != "" {
		want := fn.Name() + anon
		var found *ssa.Function
		var walk func(f *ssa.Function)
		walk = func(f *ssa.Function) {
			for _, a := range f.AnonFuncs {
				if a.Name() == want {
					found = a
				}
				walk(a)
			}
		}
		walk(fn)
		if found == nil {
			return nil, fmt.Errorf("anonymous function %s not found", want)
		}
		fn = found
	}
	return fn, nil
}

func (P *Program) isRepoFunc(fn *ssa.Function) bool {
	return fn != nil && fn.Pkg != nil && strings.HasPrefix(fn.Pkg.Pkg.Path(), modPath) && fn.Blocks != nil
}

func (P *Program) allRepoFuncs() map[*ssa.Function]bool {
	if P.allFns != nil {
		return P.allFns
	}
	P.allFns = map[*ssa.Function]bool{}
	for fn := range ssautil.AllFunctions(P.prog) {
		if P.isRepoFunc(fn) {
			P.allFns[fn] = true
		}
	}
	return P.allFns
}

// globalImmutable: package-level variable never stored to outside its package's init, and whose address never escapes.
func (P *Program) globalImmutable(g *ssa.Global) bool {
	P.immutMu.Lock()
	defer P.immutMu.Unlock()
	if v, ok := P.immut[g]; ok {
		return v
	}
	res := true
	if g.Pkg == nil {
		res = false
	} else if !strings.HasPrefix(g.Pkg.Pkg.Path(), modPath) {
		// foreign global: only error sentinels and a few well known tables are treated as immutable
		t := g.Type().Underlying().(*types.Pointer).Elem()
		res = isIface(t) && types.Identical(t, types.Universe.Lookup("error").Type())
		if g.Pkg.Pkg.Path() == "encoding/binary" {
			res = true
		}
	} else {
		if P.storesTo == nil {
			P.storesTo = map[*ssa.Global]bool{}
			for fn := range P.allRepoFuncs() {
				isInit := fn.Name() == "init" && fn.Parent() == nil
				for _, b := range fn.Blocks {
					for _, in := range b.Instrs {
						for _, op := range in.Operands(nil) {
							gg, ok := (*op).(*ssa.Global)
							if !ok {
								continue
							}
							if u, ok := in.(*ssa.UnOp); ok && u.X == gg {
								continue // plain load
							}
							if isInit {
								continue
							}
							P.storesTo[gg] = true
						}
					}
				}
			}
		}
		res = !P.storesTo[g]
	}
	P.immut[g] = res
	return res
}

func (P *Program) globalInv(g *ssa.Global) *GlobalInv {
	if g.Pkg == nil {
		return nil
	}
	return P.globInv[g.Pkg.Pkg.Path()+"."+g.Name()]
}

func (P *Program) pos(p interface{ Pos() interface{} }) string { return "" }

// funcDisplay: short name used in obligation names: pkg.Func / pkg.(*T).m
func funcDisplay(fn *ssa.Function) string {
	s := fn.String()
	s = strings.ReplaceAll(s, modPath+"/", "")
	// keep only last path element of the package
	// "(*partition/mbr.Partition).toBytes" -> "mbr.(*Partition).toBytes"
	if strings.HasPrefix(s, "(") {
		i := strings.Index(s, ")")
		recv := s[1:i]
		ptr := strings.HasPrefix(recv, "*")
		recv = strings.TrimPrefix(recv, "*")
		j := strings.LastIndex(recv, ".")
		pkg, typ := recv[:j], recv[j+1:]
		if k := strings.LastIndex(pkg, "/"); k >= 0 {
			pkg = pkg[k+1:]
		}
		if ptr {
			return pkg + ".(*" + typ + ")" + s[i+1:]
		}
		return pkg + "." + typ + s[i+1:]
	}
	j := strings.LastIndex(s, ".")
	if j < 0 {
		return s
	}
	pkg := s[:j]
	if k := strings.LastIndex(pkg, "/"); k >= 0 {
		pkg = pkg[k+1:]
	}
	// functions in the root package
	return pkg + s[j:]
}

// effect sources
func effectSource(fn *ssa.Function, eff string) bool {
	if fn == nil {
		return false
	}
	name := fn.String()
	pkg := ""
	if fn.Pkg != nil {
		pkg = fn.Pkg.Pkg.Path()
	}
	switch eff {
	case "random":
		return pkg == "math/rand" || pkg == "math/rand/v2" || pkg == "crypto/rand" ||
			name == "github.com/google/uuid.NewRandom" || name == "github.com/google/uuid.New" || name == "github.com/google/uuid.NewString" || name == "github.com/google/uuid.NewUUID"
	case "clock":
		return name == "time.Now" || name == "time.Since" || name == "time.Until"
	case "env":
		return name == "os.Getenv" || name == "os.LookupEnv" || name == "os.Environ"
	case "devwrite":
		// a function outside the repository that is handed something it could write a device through
		if name == "os.WriteFile" || name == "os.Truncate" {
			return true
		}
		if fn.Blocks != nil && strings.HasPrefix(pkg, modPath) {
			return false
		}
		sig := fn.Signature
		if sig.Recv() != nil && devWriter(sig.Recv().Type()) {
			return true
		}
		for i := 0; i < sig.Params().Len(); i++ {
			if devWriter(sig.Params().At(i).Type()) {
				return true
			}
		}
	}
	return false
}

// launders: a device writer converted to an interface that hides WriteAt but through which foreign code can still
// write (it has a Write-family method) or recover the capability (the empty interface).
func launders(from, to types.Type) bool {
	if !devWriter(from) || devWriter(to) {
		return false
	}
	it, ok := to.Underlying().(*types.Interface)
	if !ok {
		return false
	}
	if it.NumMethods() == 0 {
		return true
	}
	if repoIfaceType(to) {
		// methods of a repository interface are resolved to their repository implementations wherever they are invoked
		return false
	}
	ms := types.NewMethodSet(to)
	for i := 0; i < ms.Len(); i++ {
		switch ms.At(i).Obj().Name() {
		case "Write", "WriteString", "ReadFrom":
			return true
		}
	}
	return false
}

// devWriter: values of this static type can write at an offset of a file or device: WriteAt([]byte, int64) (int, error)
// or Truncate(int64) error in the method set.
func devWriter(t types.Type) bool {
	if s, ok := t.Underlying().(*types.Slice); ok {
		t = s.Elem()
	}
	for _, tt := range []types.Type{t, types.NewPointer(t)} {
		ms := types.NewMethodSet(tt)
		for i := 0; i < ms.Len(); i++ {
			fn, ok := ms.At(i).Obj().(*types.Func)
			if !ok {
				continue
			}
			sig := fn.Type().(*types.Signature)
			switch fn.Name() {
			case "WriteAt":
				if sig.Params().Len() == 2 && sig.Results().Len() == 2 {
					return true
				}
			case "Truncate":
				if sig.Params().Len() == 1 && sig.Results().Len() == 1 && types.Identical(sig.Params().At(0).Type(), types.Typ[types.Int64]) &&
					types.Identical(sig.Results().At(0).Type(), types.Universe.Lookup("error").Type()) {
					return true
				}
			}
		}
	}
	return false
}

func sigKey(sig *types.Signature) string {
	return types.TypeString(types.NewSignatureType(nil, nil, nil, sig.Params(), sig.Results(), sig.Variadic()), nil)
}

// mayEffect: can fn (transitively, through static calls, closures and repo methods of the invoked name) reach a source?
// A syntactic over-approximation: path conditions are ignored.
func (P *Program) mayEffect(fn *ssa.Function, eff string) bool {
	P.immutMu.Lock()
	if P.effCache == nil {
		P.effCache = map[string]bool{}
		P.byMethod = map[string][]*ssa.Function{}
		P.bySig = map[string][]*ssa.Function{}
		for f := range P.allFnsLocked() {
			if f.Signature.Recv() != nil {
				P.byMethod[f.Name()] = append(P.byMethod[f.Name()], f)
			}
			// possible targets of a call through a function value: every repository function, method or closure of that type
			P.bySig[sigKey(f.Signature)] = append(P.bySig[sigKey(f.Signature)], f)
		}
	}
	P.immutMu.Unlock()
	if fn == nil {
		return false
	}
	key := eff + "|" + fn.String()
	P.immutMu.Lock()
	if v, ok := P.effCache[key]; ok {
		P.immutMu.Unlock()
		return v
	}
	P.immutMu.Unlock()
	seen := map[*ssa.Function]bool{}
	var rec func(f *ssa.Function) bool
	rec = func(f *ssa.Function) bool {
		if f == nil || seen[f] {
			return false
		}
		seen[f] = true
		if effectSource(f, eff) {
			return true
		}
		if !P.isRepoFunc(f) {
			return false
		}
		if ct := P.contracts[f]; ct != nil && ct.Boundary[eff] {
			// the declared gate for this effect (e.g. timestamp.GetTime for the clock): its own contract says when the
			// source is consulted; callers are checked for reaching the source by any other route
			return false
		}
		for _, b := range f.Blocks {
			for _, in := range b.Instrs {
				if eff == "maporder" {
					if r, ok := in.(*ssa.Range); ok && isMap(r.X.Type()) {
						return true
					}
				}
				if mc, ok := in.(*ssa.MakeClosure); ok {
					if rec(mc.Fn.(*ssa.Function)) {
						return true
					}
				}
				if eff == "devwrite" {
					// hiding the capability: a device writer converted to an interface that no longer shows WriteAt
					switch x := in.(type) {
					case *ssa.MakeInterface:
						if launders(x.X.Type(), x.Type()) {
							return true
						}
					case *ssa.ChangeInterface:
						if launders(x.X.Type(), x.Type()) {
							return true
						}
					}
				}
				ci, ok := in.(ssa.CallInstruction)
				if !ok {
					continue
				}
				cc := ci.Common()
				if eff == "devwrite" && cc.IsInvoke() && (cc.Method.Name() == "WriteAt" || cc.Method.Name() == "Truncate") {
					return true
				}
				{
					if !cc.IsInvoke() && cc.StaticCallee() == nil {
						if _, isB := cc.Value.(*ssa.Builtin); !isB {
							// call through a function value: any repository function of that type may be the target;
							// a function type that takes a device writer may also be a foreign function
							if tg, ok := P.fieldFuncTargets(cc.Value); ok {
								hit := false
								for _, m := range tg {
									if rec(m) {
										hit = true
									}
								}
								if hit {
									return true
								}
								continue
							}
							if sg, ok := cc.Value.Type().Underlying().(*types.Signature); ok {
								for i := 0; eff == "devwrite" && i < sg.Params().Len(); i++ {
									if devWriter(sg.Params().At(i).Type()) {
										return true
									}
								}
								for _, m := range P.bySig[sigKey(sg)] {
									if rec(m) {
										return true
									}
								}
							} else {
								return true
							}
						}
					}
				}
				if cc.IsInvoke() {
					if eff == "devwrite" && !repoIfaceType(cc.Value.Type()) {
						// a method of a foreign interface (io.Writer, io.Reader ...): output to a caller-supplied sink, not a device write
						continue
					}
					for _, m := range P.byMethod[cc.Method.Name()] {
						if rec(m) {
							return true
						}
					}
					continue
				}
				if sf := cc.StaticCallee(); sf != nil {
					if rec(sf) {
						return true
					}
				}
			}
		}
		return false
	}
	r := rec(fn)
	P.immutMu.Lock()
	P.effCache[key] = r
	P.immutMu.Unlock()
	return r
}

func (P *Program) allFnsLocked() map[*ssa.Function]bool {
	if P.allFns != nil {
		return P.allFns
	}
	return P.allRepoFuncs()
}

// effectWitness: a call chain from fn to a source of eff (debugging aid; same traversal as mayEffect).
func (P *Program) effectWitness(fn *ssa.Function, eff string) []string {
	if !P.mayEffect(fn, eff) {
		return nil
	}
	var out []string
	cur := fn
	seen := map[*ssa.Function]bool{}
	for cur != nil && !seen[cur] {
		seen[cur] = true
		if effectSource(cur, eff) {
			out = append(out, cur.String()+" is a source")
			return out
		}
		var next *ssa.Function
		for _, b := range cur.Blocks {
			for _, in := range b.Instrs {
				if next != nil {
					break
				}
				switch x := in.(type) {
				case *ssa.MakeInterface:
					if eff == "devwrite" && launders(x.X.Type(), x.Type()) {
						out = append(out, cur.String()+": converts a device writer to "+x.Type().String())
						return out
					}
				case *ssa.ChangeInterface:
					if eff == "devwrite" && launders(x.X.Type(), x.Type()) {
						out = append(out, cur.String()+": converts a device writer to "+x.Type().String())
						return out
					}
				case *ssa.Range:
					if eff == "maporder" && isMap(x.X.Type()) {
						out = append(out, cur.String()+": ranges over a map")
						return out
					}
				case *ssa.MakeClosure:
					if P.mayEffect(x.Fn.(*ssa.Function), eff) {
						next = x.Fn.(*ssa.Function)
					}
				}
				ci, ok := in.(ssa.CallInstruction)
				if !ok || next != nil {
					continue
				}
				cc := ci.Common()
				if eff == "devwrite" {
					if cc.IsInvoke() && (cc.Method.Name() == "WriteAt" || cc.Method.Name() == "Truncate") {
						out = append(out, cur.String()+": invokes "+cc.Method.Name()+" at "+describe(P.prog, in.Pos()))
						return out
					}
					if !cc.IsInvoke() && cc.StaticCallee() == nil {
						if _, isB := cc.Value.(*ssa.Builtin); !isB {
							if sg, ok := cc.Value.Type().Underlying().(*types.Signature); ok {
								for _, m := range P.bySig[sigKey(sg)] {
									if next == nil && P.mayEffect(m, eff) {
										out = append(out, cur.String()+": calls a function value at "+describe(P.prog, in.Pos())+" -> "+m.String())
										next = m
									}
								}
								if next != nil {
									continue
								}
							}
							out = append(out, cur.String()+": calls a function value at "+describe(P.prog, in.Pos()))
							return out
						}
					}
				}
				if cc.IsInvoke() {
					if eff == "devwrite" && !repoIfaceType(cc.Value.Type()) {
						continue
					}
					for _, m := range P.byMethod[cc.Method.Name()] {
						if P.mayEffect(m, eff) {
							out = append(out, cur.String()+": invokes "+cc.Method.Name()+" -> "+m.String())
							next = m
							break
						}
					}
					continue
				}
				if sf := cc.StaticCallee(); sf != nil && P.mayEffect(sf, eff) {
					out = append(out, cur.String()+": calls "+sf.String())
					next = sf
				}
			}
		}
		cur = next
	}
	return out
}

func repoIfaceType(t types.Type) bool {
	if n, ok := t.(*types.Named); ok && n.Obj().Pkg() != nil {
		return strings.HasPrefix(n.Obj().Pkg().Path(), modPath)
	}
	return false
}

// dynMayEffect: may a call through a function value of this type reach a source of eff?
func (P *Program) dynMayEffectV(v ssa.Value, eff string) bool {
	if tg, ok := P.fieldFuncTargets(v); ok {
		for _, m := range tg {
			if P.mayEffect(m, eff) {
				return true
			}
		}
		return false
	}
	return P.dynMayEffect(v.Type(), eff)
}

func (P *Program) dynMayEffect(t types.Type, eff string) bool {
	sg, ok := t.Underlying().(*types.Signature)
	if !ok {
		return true
	}
	if eff == "devwrite" {
		for i := 0; i < sg.Params().Len(); i++ {
			if devWriter(sg.Params().At(i).Type()) {
				return true
			}
		}
	}
	P.mayEffect(nil, eff)
	for _, m := range P.bySig[sigKey(sg)] {
		if P.mayEffect(m, eff) {
			return true
		}
	}
	return false
}

// ifaceImplStatus: which in-repo implementations of the invoked interface method carry a func contract with the same
// modifies clause as the interface contract (those are proved separately), and which do not.
func (P *Program) ifaceImplStatus(c *ssa.CallCommon, ct *Contract) string {
	it, ok := c.Value.Type().Underlying().(*types.Interface)
	if !ok {
		return "no implementation information"
	}
	P.mayEffect(nil, "devwrite")
	P.immutMu.Lock()
	if P.byMethod == nil {
		P.byMethod = map[string][]*ssa.Function{}
		P.bySig = map[string][]*ssa.Function{}
		for f := range P.allFnsLocked() {
			if f.Signature.Recv() != nil {
				P.byMethod[f.Name()] = append(P.byMethod[f.Name()], f)
			}
			P.bySig[sigKey(f.Signature)] = append(P.bySig[sigKey(f.Signature)], f)
		}
	}
	P.immutMu.Unlock()
	var ok2, missing []string
	for _, m := range P.byMethod[c.Method.Name()] {
		if m.Synthetic != "" {
			continue
		}
		rt := m.Signature.Recv().Type()
		if !types.Implements(rt, it) {
			continue
		}
		ic := P.contracts[m]
		if ic != nil && modifiesText(ic) == modifiesText(ct) {
			ok2 = append(ok2, funcDisplay(m))
		} else {
			missing = append(missing, funcDisplay(m))
		}
	}
	sort.Strings(ok2)
	sort.Strings(missing)
	out := "implementations under a func contract with the same frame: " + strings.Join(ok2, ", ")
	if len(missing) > 0 {
		out += "; implementations NOT checked against it: " + strings.Join(missing, ", ")
	}
	return out
}

func modifiesText(c *Contract) string {
	var parts []string
	for _, m := range c.Modifies {
		parts = append(parts, strings.Join(strings.Fields(m.Src), ""))
	}
	sort.Strings(parts)
	return strings.Join(parts, ",")
}

// fieldFuncTargets: for a call through a function value loaded from a struct field, the functions (closures, bound methods)
// that repository code stores into that field. ok=false when some store puts a value there that is not a function literal,
// a named function or a method value (then the caller falls back to "any function of that type").
// Exported fields can also be assigned by users of the library: not considered (listed as an assumption).
func (P *Program) fieldFuncTargets(v ssa.Value) ([]*ssa.Function, bool) {
	ld, ok := v.(*ssa.UnOp)
	if !ok || ld.Op != token.MUL {
		return nil, false
	}
	fa, ok := ld.X.(*ssa.FieldAddr)
	if !ok {
		return nil, false
	}
	pt, ok := fa.X.Type().Underlying().(*types.Pointer)
	if !ok {
		return nil, false
	}
	n, _ := namedStruct(pt.Elem())
	if n == nil {
		return nil, false
	}
	P.immutMu.Lock()
	defer P.immutMu.Unlock()
	if P.fieldFns == nil {
		P.fieldFns = map[string][]*ssa.Function{}
		P.fieldFnsUnknown = map[string]bool{}
		for fn := range P.allRepoFuncs() {
			for _, b := range fn.Blocks {
				for _, in := range b.Instrs {
					st, ok := in.(*ssa.Store)
					if !ok {
						continue
					}
					if _, isSig := st.Val.Type().Underlying().(*types.Signature); !isSig {
						continue
					}
					sfa, ok := st.Addr.(*ssa.FieldAddr)
					if !ok {
						continue
					}
					spt, ok := sfa.X.Type().Underlying().(*types.Pointer)
					if !ok {
						continue
					}
					sn, _ := namedStruct(spt.Elem())
					if sn == nil {
						continue
					}
					k := fieldKey(sn, sfa.Field)
					switch x := st.Val.(type) {
					case *ssa.Function:
						P.fieldFns[k] = append(P.fieldFns[k], x)
					case *ssa.MakeClosure:
						P.fieldFns[k] = append(P.fieldFns[k], x.Fn.(*ssa.Function))
					case *ssa.Const:
						// nil
					default:
						P.fieldFnsUnknown[k] = true
					}
				}
			}
		}
	}
	k := fieldKey(n, fa.Field)
	if P.fieldFnsUnknown[k] {
		return nil, false
	}
	return P.fieldFns[k], true
}
