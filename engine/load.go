package main

import (
	"fmt"
	"go/types"
	"os"
	"path/filepath"
	"sort"
	"strings"
	"sync"

	"golang.org/x/tools/go/packages"
	"golang.org/x/tools/go/ssa"
	"golang.org/x/tools/go/ssa/ssautil"
)

const modPath = "github.com/diskfs/go-diskfs"

type Program struct {
	prog      *ssa.Program
	pkgs      map[string]*ssa.Package
	tpkgs     map[string]*packages.Package
	contracts map[*ssa.Function]*Contract
	byName    map[string]*Contract // ssa function String() -> contract
	ifaceC    map[string]*Contract // "pkgpath.Type.Method"
	preds     map[string]*Pred     // "pkgpath.name" and bare name for /verif/spec preds
	globInv   map[string]*GlobalInv
	guarded   map[string]string
	files     []*ContractFile
	immutMu   sync.Mutex
	immut     map[*ssa.Global]bool
	repoDir   string
	allFns    map[*ssa.Function]bool
	storesTo  map[*ssa.Global]bool
	asTargets []types.Type
	effCache  map[string]bool
	byMethod  map[string][]*ssa.Function
}

func loadProgram(repo string, patterns []string) (*Program, error) {
	cfg := &packages.Config{Mode: packages.LoadAllSyntax, Dir: repo, BuildFlags: []string{"-tags=verif"},
		Env: append(os.Environ(), "GOFLAGS=-mod=mod", "GOPROXY=off")}
	pkgs, err := packages.Load(cfg, patterns...)
	if err != nil {
		return nil, err
	}
	var errs []string
	packages.Visit(pkgs, nil, func(p *packages.Package) {
		for _, e := range p.Errors {
			if strings.HasPrefix(p.PkgPath, modPath) {
				errs = append(errs, e.Error())
			}
		}
	})
	if len(errs) > 0 {
		return nil, fmt.Errorf("package errors (the tree does not compile with -tags verif):\n%s", strings.Join(errs, "\n"))
	}
	prog, spkgs := ssautil.AllPackages(pkgs, ssa.GlobalDebug)
	_ = spkgs
	P := &Program{prog: prog, pkgs: map[string]*ssa.Package{}, tpkgs: map[string]*packages.Package{}, contracts: map[*ssa.Function]*Contract{},
		byName: map[string]*Contract{}, ifaceC: map[string]*Contract{}, preds: map[string]*Pred{}, globInv: map[string]*GlobalInv{},
		guarded: map[string]string{}, immut: map[*ssa.Global]bool{}, repoDir: repo}
	packages.Visit(pkgs, nil, func(p *packages.Package) {
		P.tpkgs[p.PkgPath] = p
	})
	for _, sp := range prog.AllPackages() {
		P.pkgs[sp.Pkg.Path()] = sp
		if strings.HasPrefix(sp.Pkg.Path(), modPath) {
			sp.Build()
		}
	}
	// dependencies are built lazily: only repo packages need bodies; foreign bodies are never inlined.
	// contract files
	for path, tp := range P.tpkgs {
		if !strings.HasPrefix(path, modPath) || len(tp.GoFiles) == 0 {
			continue
		}
		dir := filepath.Dir(tp.GoFiles[0])
		cfp := filepath.Join(dir, "zz_verif_contracts.go")
		if _, err := os.Stat(cfp); err != nil {
			continue
		}
		cf, err := parseContractFile(cfp, path)
		if err != nil {
			return nil, err
		}
		P.files = append(P.files, cf)
	}
	sort.Slice(P.files, func(i, j int) bool { return P.files[i].PkgPath < P.files[j].PkgPath })
	for _, cf := range P.files {
		for _, p := range cf.Preds {
			P.preds[cf.PkgPath+"."+p.Name] = p
		}
		for _, g := range cf.Globals {
			P.globInv[cf.PkgPath+"."+g.Name] = g
		}
		for k, v := range cf.Guarded {
			P.guarded[cf.PkgPath+"."+k] = v
		}
		for _, c := range cf.Contracts {
			if c.Iface {
				P.ifaceC[qualifyIface(cf.PkgPath, c.FnName)] = c
				continue
			}
			fn, err := P.resolveFunc(cf.PkgPath, c.FnName)
			if err != nil {
				return nil, fmt.Errorf("%s: %v", c.Where, err)
			}
			if _, dup := P.contracts[fn]; dup {
				return nil, fmt.Errorf("%s: duplicate contract for %s", c.Where, fn)
			}
			P.contracts[fn] = c
			P.byName[fn.String()] = c
		}
	}
	return P, nil
}

// "Type.Method" in the file's package, or "pkg/path.Type.Method" (e.g. io.Reader.Read)
func qualifyIface(pkgPath, name string) string {
	parts := strings.Split(name, ".")
	if len(parts) == 2 {
		return pkgPath + "." + name
	}
	return name
}

// resolveFunc maps a contract header to an SSA function.
func (P *Program) resolveFunc(pkgPath, name string) (*ssa.Function, error) {
	sp := P.pkgs[pkgPath]
	if sp == nil {
		return nil, fmt.Errorf("package %s not loaded", pkgPath)
	}
	anon := ""
	if i := strings.Index(name, "$"); i >= 0 {
		anon = name[i:]
		name = name[:i]
	}
	var fn *ssa.Function
	if strings.HasPrefix(name, "(") || strings.Contains(name, ".") {
		// method
		recv := name[:strings.LastIndex(name, ".")]
		meth := name[strings.LastIndex(name, ".")+1:]
		recv = strings.Trim(recv, "()")
		ptr := strings.HasPrefix(recv, "*")
		recv = strings.TrimPrefix(recv, "*")
		tn := sp.Type(recv)
		if tn == nil {
			return nil, fmt.Errorf("type %s.%s not found", pkgPath, recv)
		}
		var T types.Type = tn.Type()
		if ptr {
			T = types.NewPointer(T)
		}
		sel := P.prog.MethodSets.MethodSet(T).Lookup(sp.Pkg, meth)
		if sel == nil {
			return nil, fmt.Errorf("method %s not found on %s", meth, T)
		}
		fn = P.prog.MethodValue(sel)
		// wrappers for promoted/value methods: take the declared function
		if fn != nil && fn.Synthetic != "" {
			if obj, ok := sel.Obj().(*types.Func); ok {
				if d := P.prog.FuncValue(obj); d != nil {
					fn = d
				}
			}
		}
	} else {
		fn = sp.Func(name)
	}
	if fn == nil {
		return nil, fmt.Errorf("function %s.%s not found", pkgPath, name)
	}
	if anon != "" {
		want := fn.Name() + anon
		var found *ssa.Function
		var walk func(f *ssa.Function)
		walk = func(f *ssa.Function) {
			for _, a := range f.AnonFuncs {
				if a.Name() == want {
					found = a
				}
				walk(a)
			}
		}
		walk(fn)
		if found == nil {
			return nil, fmt.Errorf("anonymous function %s not found", want)
		}
		fn = found
	}
	return fn, nil
}

func (P *Program) isRepoFunc(fn *ssa.Function) bool {
	return fn != nil && fn.Pkg != nil && strings.HasPrefix(fn.Pkg.Pkg.Path(), modPath) && fn.Blocks != nil
}

func (P *Program) allRepoFuncs() map[*ssa.Function]bool {
	if P.allFns != nil {
		return P.allFns
	}
	P.allFns = map[*ssa.Function]bool{}
	for fn := range ssautil.AllFunctions(P.prog) {
		if P.isRepoFunc(fn) {
			P.allFns[fn] = true
		}
	}
	return P.allFns
}

// globalImmutable: package-level variable never stored to outside its package's init, and whose address never escapes.
func (P *Program) globalImmutable(g *ssa.Global) bool {
	P.immutMu.Lock()
	defer P.immutMu.Unlock()
	if v, ok := P.immut[g]; ok {
		return v
	}
	res := true
	if g.Pkg == nil {
		res = false
	} else if !strings.HasPrefix(g.Pkg.Pkg.Path(), modPath) {
		// foreign global: only error sentinels and a few well known tables are treated as immutable
		t := g.Type().Underlying().(*types.Pointer).Elem()
		res = isIface(t) && types.Identical(t, types.Universe.Lookup("error").Type())
		if g.Pkg.Pkg.Path() == "encoding/binary" {
			res = true
		}
	} else {
		if P.storesTo == nil {
			P.storesTo = map[*ssa.Global]bool{}
			for fn := range P.allRepoFuncs() {
				isInit := fn.Name() == "init" && fn.Parent() == nil
				for _, b := range fn.Blocks {
					for _, in := range b.Instrs {
						for _, op := range in.Operands(nil) {
							gg, ok := (*op).(*ssa.Global)
							if !ok {
								continue
							}
							if u, ok := in.(*ssa.UnOp); ok && u.X == gg {
								continue // plain load
							}
							if isInit {
								continue
							}
							P.storesTo[gg] = true
						}
					}
				}
			}
		}
		res = !P.storesTo[g]
	}
	P.immut[g] = res
	return res
}

func (P *Program) globalInv(g *ssa.Global) *GlobalInv {
	if g.Pkg == nil {
		return nil
	}
	return P.globInv[g.Pkg.Pkg.Path()+"."+g.Name()]
}

func (P *Program) pos(p interface{ Pos() interface{} }) string { return "" }

// funcDisplay: short name used in obligation names: pkg.Func / pkg.(*T).m
func funcDisplay(fn *ssa.Function) string {
	s := fn.String()
	s = strings.ReplaceAll(s, modPath+"/", "")
	// keep only last path element of the package
	// "(*partition/mbr.Partition).toBytes" -> "mbr.(*Partition).toBytes"
	if strings.HasPrefix(s, "(") {
		i := strings.Index(s, ")")
		recv := s[1:i]
		ptr := strings.HasPrefix(recv, "*")
		recv = strings.TrimPrefix(recv, "*")
		j := strings.LastIndex(recv, ".")
		pkg, typ := recv[:j], recv[j+1:]
		if k := strings.LastIndex(pkg, "/"); k >= 0 {
			pkg = pkg[k+1:]
		}
		if ptr {
			return pkg + ".(*" + typ + ")" + s[i+1:]
		}
		return pkg + "." + typ + s[i+1:]
	}
	j := strings.LastIndex(s, ".")
	if j < 0 {
		return s
	}
	pkg := s[:j]
	if k := strings.LastIndex(pkg, "/"); k >= 0 {
		pkg = pkg[k+1:]
	}
	// functions in the root package
	return pkg + s[j:]
}

// effect sources
func effectSource(fn *ssa.Function, eff string) bool {
	if fn == nil {
		return false
	}
	name := fn.String()
	pkg := ""
	if fn.Pkg != nil {
		pkg = fn.Pkg.Pkg.Path()
	}
	switch eff {
	case "random":
		return pkg == "math/rand" || pkg == "math/rand/v2" || pkg == "crypto/rand" ||
			name == "github.com/google/uuid.NewRandom" || name == "github.com/google/uuid.New" || name == "github.com/google/uuid.NewString" || name == "github.com/google/uuid.NewUUID"
	case "clock":
		return name == "time.Now" || name == "time.Since" || name == "time.Until"
	case "env":
		return name == "os.Getenv" || name == "os.LookupEnv" || name == "os.Environ"
	}
	return false
}

// mayEffect: can fn (transitively, through static calls, closures and repo methods of the invoked name) reach a source?
// A syntactic over-approximation: path conditions are ignored.
func (P *Program) mayEffect(fn *ssa.Function, eff string) bool {
	P.immutMu.Lock()
	if P.effCache == nil {
		P.effCache = map[string]bool{}
		P.byMethod = map[string][]*ssa.Function{}
		for f := range P.allFnsLocked() {
			if f.Signature.Recv() != nil {
				P.byMethod[f.Name()] = append(P.byMethod[f.Name()], f)
			}
		}
	}
	P.immutMu.Unlock()
	key := eff + "|" + fn.String()
	P.immutMu.Lock()
	if v, ok := P.effCache[key]; ok {
		P.immutMu.Unlock()
		return v
	}
	P.immutMu.Unlock()
	seen := map[*ssa.Function]bool{}
	var rec func(f *ssa.Function) bool
	rec = func(f *ssa.Function) bool {
		if f == nil || seen[f] {
			return false
		}
		seen[f] = true
		if effectSource(f, eff) {
			return true
		}
		if !P.isRepoFunc(f) {
			return false
		}
		for _, b := range f.Blocks {
			for _, in := range b.Instrs {
				if eff == "maporder" {
					if r, ok := in.(*ssa.Range); ok && isMap(r.X.Type()) {
						return true
					}
				}
				if mc, ok := in.(*ssa.MakeClosure); ok {
					if rec(mc.Fn.(*ssa.Function)) {
						return true
					}
				}
				ci, ok := in.(ssa.CallInstruction)
				if !ok {
					continue
				}
				cc := ci.Common()
				if cc.IsInvoke() {
					for _, m := range P.byMethod[cc.Method.Name()] {
						if rec(m) {
							return true
						}
					}
					continue
				}
				if sf := cc.StaticCallee(); sf != nil {
					if rec(sf) {
						return true
					}
				}
			}
		}
		return false
	}
	r := rec(fn)
	P.immutMu.Lock()
	P.effCache[key] = r
	P.immutMu.Unlock()
	return r
}

func (P *Program) allFnsLocked() map[*ssa.Function]bool {
	if P.allFns != nil {
		return P.allFns
	}
	return P.allRepoFuncs()
}
