package main

import (
	"bytes"
	"context"
	"fmt"
	"os"
	"os/exec"
	"regexp"
	"runtime/debug"
	"strings"
	"sync"
	"time"
)

func stackTrace() string { return string(debug.Stack()) }

type SolverCfg struct {
	Name string
	Cmd  func(timeoutMs int, quant bool) []string
	Head func(timeoutMs int, quant bool) string
}

var solvers = []SolverCfg{
	{Name: "z3-5.1.0", Cmd: func(ms int, q bool) []string { return []string{"z3-new", "-in", fmt.Sprintf("-t:%d", ms)} },
		Head: func(ms int, q bool) string { return "" }},
	{Name: "cvc5-1.0", Cmd: func(ms int, q bool) []string {
		a := []string{"cvc5", "--lang=smt2", fmt.Sprintf("--tlimit=%d", ms), "--produce-models"}
		if q {
			a = append(a, "--enum-inst")
		}
		return a
	}, Head: func(ms int, q bool) string { return "(set-logic ALL)\n" }},
	{Name: "z3-4.8.12", Cmd: func(ms int, q bool) []string { return []string{"/usr/bin/z3", "-in", fmt.Sprintf("-t:%d", ms)} },
		Head: func(ms int, q bool) string {
			if q {
				return "(set-option :smt.auto_config false)\n(set-option :smt.mbqi false)\n"
			}
			return ""
		}},
}

type solveOut struct {
	res    string // unsat sat unknown timeout error
	solver string
	out    string
	secs   float64
}

var procSem = make(chan struct{}, 16)

func runSolver(ctx context.Context, sc SolverCfg, script string, ms int, quant bool, wantModel bool) solveOut {
	procSem <- struct{}{}
	defer func() { <-procSem }()
	if ctx.Err() != nil {
		return solveOut{solver: sc.Name, res: "unknown", out: "cancelled"}
	}
	start := time.Now()
	args := sc.Cmd(ms, quant)
	cctx, cancel := context.WithTimeout(ctx, time.Duration(ms+1500)*time.Millisecond)
	defer cancel()
	cmd := exec.CommandContext(cctx, args[0], args[1:]...)
	full := sc.Head(ms, quant) + script + "(check-sat)\n"
	cmd.Stdin = strings.NewReader(full)
	var out bytes.Buffer
	cmd.Stdout = &out
	cmd.Stderr = &out
	_ = cmd.Run()
	o := solveOut{solver: sc.Name, out: out.String(), secs: time.Since(start).Seconds()}
	first := strings.TrimSpace(strings.SplitN(out.String(), "\n", 2)[0])
	switch first {
	case "unsat", "sat", "unknown":
		o.res = first
	case "timeout":
		o.res = "timeout"
	default:
		if cctx.Err() != nil {
			o.res = "timeout"
		} else if strings.Contains(out.String(), "interrupted") || strings.Contains(out.String(), "timeout") {
			o.res = "timeout"
		} else {
			o.res = "error"
		}
	}
	return o
}

var valueRe = regexp.MustCompile(`\(([^\s()]+)\s+(#x[0-9a-fA-F]+|#b[01]+|true|false|\(- \d+\)|\d+)\)`)

func getModel(sc SolverCfg, script string, vars []*Term, ms int, quant bool) map[string]string {
	var names []string
	for _, v := range vars {
		if v.S.K == KArr {
			continue
		}
		names = append(names, v.Name)
	}
	if len(names) == 0 {
		return map[string]string{}
	}
	args := sc.Cmd(ms, quant)
	cmd := exec.Command(args[0], args[1:]...)
	head := sc.Head(ms, quant)
	if !strings.Contains(args[0], "cvc5") {
		head = "(set-option :produce-models true)\n" + head
	}
	cmd.Stdin = strings.NewReader(head + script + "(check-sat)\n(get-value (" + strings.Join(names, " ") + "))\n")
	var out bytes.Buffer
	cmd.Stdout = &out
	done := make(chan struct{})
	go func() { _ = cmd.Run(); close(done) }()
	select {
	case <-done:
	case <-time.After(time.Duration(ms+2000) * time.Millisecond):
		if cmd.Process != nil {
			_ = cmd.Process.Kill()
		}
		<-done
	}
	m := map[string]string{}
	for _, mm := range valueRe.FindAllStringSubmatch(out.String(), -1) {
		m[mm[1]] = mm[2]
	}
	return m
}

// relevant assumptions: connected to the goal through shared variables.
func (tr *Tr) sliceAssumptions(o *Obligation, extra []*Term) []*Term {
	f := tr.f
	goal := f.And(o.Reach, f.Not(o.Cond))
	syms := map[string]bool{}
	collectSyms(goal, map[*Term]bool{}, syms)
	for _, e := range extra {
		collectSyms(e, map[*Term]bool{}, syms)
	}
	type cand struct {
		t      *Term
		syms   map[string]bool
		used   bool
		region *Term
	}
	var cands []*cand
	for _, a := range tr.assumes[:o.NAssume] {
		c := &cand{t: a.T, syms: map[string]bool{}, region: a.Region}
		collectSyms(a.T, map[*Term]bool{}, c.syms)
		cands = append(cands, c)
	}
	// terms occurring in the goal and in ordinary assumptions (to decide whether a zero-init fact can matter)
	occurs := map[*Term]bool{}
	var mark func(t *Term)
	seenM := map[*Term]bool{}
	mark = func(t *Term) {
		if seenM[t] {
			return
		}
		seenM[t] = true
		if (t.Op == "select" || t.Op == "store") && len(t.Args) >= 2 {
			occurs[t.Args[1]] = true // used as an index
		}
		for _, a := range t.Args {
			mark(a)
		}
	}
	mark(goal)
	for _, e := range extra {
		mark(e)
	}
	hubs := map[string]bool{} // heaps accessed so far ("H64@")
	for s := range syms {
		if i := strings.Index(s, "@"); i > 0 {
			hubs[s[:i+1]] = true
		}
	}
	changed := true
	for changed {
		changed = false
		for _, c := range cands {
			if c.used {
				continue
			}
			if c.region != nil && !occurs[c.region] {
				continue
			}
			hit := len(c.syms) == 0
			for s := range c.syms {
				if syms[s] {
					hit = true
					break
				}
				if strings.HasSuffix(s, "@*") && hubs[strings.TrimSuffix(s, "*")] {
					hit = true
					break
				}
			}
			if hit {
				c.used = true
				changed = true
				for s := range c.syms {
					syms[s] = true
					if i := strings.Index(s, "@"); i > 0 {
						hubs[s[:i+1]] = true
					}
				}
				if c.region == nil {
					mark(c.t)
				}
			}
		}
	}
	var out []*Term
	for _, c := range cands {
		if c.used {
			out = append(out, c.t)
		}
	}
	out = append(out, extra...)
	out = append(out, goal)
	return out
}

// sliceAll: every assumption visible to o plus its reach condition (vacuity probes use no slicing).
func (tr *Tr) sliceAll(o *Obligation) []*Term {
	var out []*Term
	for _, a := range tr.assumes[:o.NAssume] {
		out = append(out, a.T)
	}
	return append(out, o.Reach)
}

type solveOpts struct {
	budgetS   int // wall-clock budget per function (seconds); obligations not started by then are reported as timeout
	timeoutMs int
	dumpDir   string
	first     int // ms for the first, single-solver attempt
}

// prepare builds the SMT scripts of an obligation (sequential: the term factory is not thread-safe).
// Scripts[0] is the ground-instantiated query (quantifier-free when possible), Scripts[1] the full query when it differs.
type prepared struct {
	ground       *Script
	full         *Script
	instantiated bool
	cases        []*Script // ground query under each declared case (discharged only if the plain query is undecided)
	parts        []*prepared // the goal split into conjuncts (discharged only if the whole goal is undecided)
}

func (tr *Tr) prepare(o *Obligation, opt solveOpts, extra []*Term) *prepared {
	p := tr.prepare1(o, opt, extra)
	if parts := tr.f.splitConj(o.Cond); len(parts) > 1 && len(parts) <= 96 {
		for i, c := range parts {
			o2 := &Obligation{Name: fmt.Sprintf("%s.part%d", o.Name, i), Kind: o.Kind, Reach: o.Reach, Cond: c, NAssume: o.NAssume}
			p.parts = append(p.parts, tr.prepare1(o2, opt, extra))
		}
	}
	return p
}

// seqFuncLemmas: functions of a byte *sequence* (crc32) are modelled as uninterpreted functions of (array, offset, length);
// two applications agree when the sequences agree. The lemma is added for every pair of applications in the query.
func (tr *Tr) seqFuncLemmas(asserts []*Term) []*Term {
	f := tr.f
	var apps []*Term
	seen := map[*Term]bool{}
	bm := map[*Term]bool{}
	var rec func(t *Term)
	rec = func(t *Term) {
		if seen[t] {
			return
		}
		seen[t] = true
		if t.Op == "app" && t.Name == "crc32" && len(t.Args) == 3 && !containsBound(t, bm) {
			apps = append(apps, t)
		}
		for _, a := range t.Args {
			rec(a)
		}
	}
	for _, a := range asserts {
		rec(a)
	}
	var out []*Term
	for i := 0; i < len(apps) && len(out) < 24; i++ {
		for j := i + 1; j < len(apps) && len(out) < 24; j++ {
			a, b := apps[i], apps[j]
			if a.Args[0] == b.Args[0] && a.Args[1] == b.Args[1] {
				continue
			}
			k := f.BoundVar("q", S64)
			same := f.Forall([]*Term{k}, f.Implies(f.And(f.SLe(f.BVi(64, 0), k), f.SLt(k, a.Args[2])),
				f.Eq(f.Select(a.Args[0], f.Add(a.Args[1], k)), f.Select(b.Args[0], f.Add(b.Args[1], k)))))
			out = append(out, f.Implies(f.And(f.Eq(a.Args[2], b.Args[2]), same), f.Eq(a, b)))
		}
	}
	return out
}

func (tr *Tr) prepare1(o *Obligation, opt solveOpts, extra []*Term) *prepared {
	asserts := tr.sliceAssumptions(o, extra)
	if lem := tr.seqFuncLemmas(asserts); len(lem) > 0 {
		goal := asserts[len(asserts)-1]
		asserts = append(append(asserts[:len(asserts)-1:len(asserts)-1], lem...), goal)
	}
	g, inst, _ := tr.f.groundQuery(asserts)
	p := &prepared{instantiated: inst}
	p.ground = tr.f.Script(g, nil)
	if inst {
		p.full = tr.f.Script(asserts, nil)
	}
	o.SmtSize = len(p.ground.Text)
	if extra == nil && o.Kind != "split-cover" {
		for _, c := range tr.splitCases {
			as2 := tr.sliceAssumptions(o, c)
			// substitute the case values (lets the simplifier fold multiplications by a now-constant factor)
			sub := map[*Term]*Term{}
			for _, e := range c {
				if e.Op == "=" && e.Args[1].IsConst() {
					sub[e.Args[0]] = e.Args[1]
				} else if e.Op == "=" && e.Args[0].IsConst() {
					sub[e.Args[1]] = e.Args[0]
				}
			}
			for i, a := range as2 {
				keep := false
				for _, e := range c {
					if a == e {
						keep = true
					}
				}
				if !keep {
					as2[i] = tr.f.Subst(a, sub)
				}
			}
			g2, _, _ := tr.f.groundQuery(as2)
			p.cases = append(p.cases, tr.f.Script(g2, nil))
		}
	}
	if opt.dumpDir != "" {
		base := fmt.Sprintf("%s/%s__%s", opt.dumpDir, sanitize(funcDisplay(tr.top)), sanitize(o.Name))
		_ = os.WriteFile(base+".smt2", []byte(p.ground.Text), 0o644)
		if p.full != nil {
			_ = os.WriteFile(base+".full.smt2", []byte(p.full.Text), 0o644)
		}
		for i, c := range p.cases {
			_ = os.WriteFile(fmt.Sprintf("%s.case%d.smt2", base, i), []byte(c.Text), 0o644)
		}
	}
	return p
}

// raceSolvers: z3-new with the short timeout, then z3-new with the full timeout, and only then the other solvers.
func raceSolvers(sc *Script, first, timeoutMs int) (solveOut, []solveOut) {
	ctx := context.Background()
	r := runSolver(ctx, solvers[0], sc.Text, first, sc.Quant, false)
	tried := []solveOut{r}
	if r.res == "unsat" || r.res == "sat" || timeoutMs <= first {
		return r, tried
	}
	r = runSolver(ctx, solvers[0], sc.Text, timeoutMs, sc.Quant, false)
	tried = append(tried, r)
	if r.res == "unsat" || r.res == "sat" {
		return r, tried
	}
	cctx, cancel := context.WithCancel(ctx)
	defer cancel()
	rest := solvers[1:]
	ch := make(chan solveOut, len(rest))
	for _, s := range rest {
		s := s
		go func() { ch <- runSolver(cctx, s, sc.Text, timeoutMs, sc.Quant, false) }()
	}
	for range rest {
		x := <-ch
		tried = append(tried, x)
		if x.res == "unsat" || x.res == "sat" {
			return x, tried
		}
	}
	return r, tried
}

// raceAll runs every solver on the script at once and returns the first definitive answer.
func raceAll(sc *Script, timeoutMs int) (solveOut, []solveOut) {
	cctx, cancel := context.WithCancel(context.Background())
	defer cancel()
	ch := make(chan solveOut, len(solvers))
	for _, s := range solvers {
		s := s
		go func() { ch <- runSolver(cctx, s, sc.Text, timeoutMs, sc.Quant, false) }()
	}
	var tried []solveOut
	var last solveOut
	for range solvers {
		x := <-ch
		tried = append(tried, x)
		last = x
		if x.res == "unsat" || x.res == "sat" {
			return x, tried
		}
	}
	return last, tried
}

// discharge one obligation in stages, cheapest first:
//   A  ground query, z3-new alone, short timeout
//   C  the goal split into conjuncts, each through A and B
//   B  the declared case split (each case: z3-new short, then a race of all solvers)
//   D  ground query, race of all solvers, full timeout
//   E  the full quantified query, race of all solvers
// `unsat` at any stage is a proof; `sat` is definitive only when nothing was instantiated.
func discharge(o *Obligation, p *prepared, opt solveOpts) {
	start := time.Now()
	defer func() { o.Time = time.Since(start).Seconds() }()
	var log []solveOut
	res := dischargeStages(p, opt, &log, true)
	var sb strings.Builder
	for _, t := range log {
		fmt.Fprintf(&sb, "[%s %.2fs] %s\n", t.solver, t.secs, strings.TrimSpace(firstLines(t.out, 2)))
	}
	o.Output = sb.String()
	o.Result = res.res
	o.Solver = res.solver
	o.Candidate = res.candidate
	if res.res != "unsat" && res.res != "sat" {
		o.Result = "unknown"
		for _, t := range log {
			if t.res == "timeout" {
				o.Result = "timeout"
			}
		}
	}
	if o.Result == "sat" && res.model != nil {
		for _, s := range solvers {
			if strings.HasPrefix(res.solver, s.Name) {
				o.Model = getModel(s, res.model.Text, res.model.Vars, opt.timeoutMs, res.model.Quant)
				o.ModelScript = res.model.Text
				o.ModelQuant = res.model.Quant
			}
		}
	}
}

type stageRes struct {
	res       string
	solver    string
	candidate bool
	model     *Script
}

func quickMs(opt solveOpts) int {
	q := opt.first
	if q <= 0 {
		q = 2000
	}
	if q > opt.timeoutMs {
		q = opt.timeoutMs
	}
	return q
}

func runCases(p *prepared, opt solveOpts, log *[]solveOut) stageRes {
	type caseRes struct {
		i     int
		r     solveOut
		tried []solveOut
	}
	ch := make(chan caseRes, len(p.cases))
	for i, cs := range p.cases {
		go func(i int, cs *Script) {
			rc, tc := raceSolvers(cs, quickMs(opt), opt.timeoutMs)
			ch <- caseRes{i, rc, tc}
		}(i, cs)
	}
	all := true
	var worst *caseRes
	for range p.cases {
		cr := <-ch
		if cr.r.res != "unsat" {
			all = false
			if worst == nil || (cr.r.res == "sat" && worst.r.res != "sat") {
				c := cr
				worst = &c
			}
		}
	}
	if all {
		return stageRes{res: "unsat", solver: fmt.Sprintf("z3-5.1.0 (case split into %d)", len(p.cases))}
	}
	for j := range worst.tried {
		worst.tried[j].solver += fmt.Sprintf(" (case %d/%d)", worst.i+1, len(p.cases))
	}
	*log = append(*log, worst.tried...)
	out := stageRes{res: worst.r.res, solver: worst.r.solver + fmt.Sprintf(" (case %d/%d)", worst.i+1, len(p.cases))}
	if worst.r.res == "sat" {
		out.model = p.cases[worst.i]
		out.candidate = p.instantiated
	}
	return out
}

func dischargeStages(p *prepared, opt solveOpts, log *[]solveOut, top bool) stageRes {
	ctx := context.Background()
	suffix := ""
	if p.instantiated {
		suffix = " (ground-instantiated)"
	}
	// A
	a := runSolver(ctx, solvers[0], p.ground.Text, quickMs(opt)/2+500, p.ground.Quant, false)
	*log = append(*log, a)
	if a.res == "unsat" {
		return stageRes{res: "unsat", solver: a.solver + suffix}
	}
	if a.res == "sat" && !p.instantiated {
		return stageRes{res: "sat", solver: a.solver, model: p.ground}
	}
	var sat *stageRes
	if a.res == "sat" {
		sat = &stageRes{res: "sat", solver: a.solver, candidate: true, model: p.ground}
	}
	// C
	if top && len(p.parts) > 1 {
		ch := make(chan stageRes, len(p.parts))
		logs := make([][]solveOut, len(p.parts))
		for i, pp := range p.parts {
			go func(i int, pp *prepared) { ch <- dischargeStages(pp, opt, &logs[i], false) }(i, pp)
		}
		all := true
		for range p.parts {
			r := <-ch
			if r.res != "unsat" {
				all = false
				if r.res == "sat" && sat == nil {
					rr := r
					sat = &rr
				}
			}
		}
		if all {
			return stageRes{res: "unsat", solver: fmt.Sprintf("z3-5.1.0 (goal split into %d conjuncts)", len(p.parts))}
		}
		for i := range logs {
			for j := range logs[i] {
				logs[i][j].solver += fmt.Sprintf(" (conjunct %d/%d)", i+1, len(p.parts))
			}
			*log = append(*log, logs[i]...)
		}
		// a definitive sat of one conjunct is a definitive sat of the goal
		if sat != nil && !sat.candidate {
			return *sat
		}
	}
	// B
	if len(p.cases) > 0 {
		r := runCases(p, opt, log)
		if r.res == "unsat" {
			return r
		}
		if r.res == "sat" {
			if !r.candidate {
				return r
			}
			if sat == nil {
				sat = &r
			}
		}
	}
	// D
	if sat == nil || len(p.cases) == 0 {
		r, tried := raceSolvers(p.ground, quickMs(opt), opt.timeoutMs)
		*log = append(*log, tried...)
		if r.res == "unsat" {
			return stageRes{res: "unsat", solver: r.solver + suffix}
		}
		if r.res == "sat" {
			if !p.instantiated {
				return stageRes{res: "sat", solver: r.solver, model: p.ground}
			}
			if sat == nil {
				sat = &stageRes{res: "sat", solver: r.solver, candidate: true, model: p.ground}
			}
		}
	}
	// E
	if p.instantiated && p.full != nil && top {
		// a model of the ground-instantiated query is only a candidate (instantiation is incomplete): the quantified
		// query decides, with every solver in parallel and a generous limit so that machine load does not turn a
		// provable obligation into an alarm
		tmo := opt.timeoutMs
		if tmo < 45000 {
			tmo = 45000
		}
		r, tried := raceAll(p.full, tmo)
		for i := range tried {
			tried[i].solver += " (quantified)"
		}
		*log = append(*log, tried...)
		if r.res == "unsat" {
			return stageRes{res: "unsat", solver: r.solver + " (quantified)"}
		}
	}
	if sat != nil {
		return *sat
	}
	return stageRes{res: "unknown"}
}

func firstLines(s string, n int) string {
	ls := strings.Split(s, "\n")
	if len(ls) > n {
		ls = ls[:n]
	}
	return strings.Join(ls, "\n")
}

// dischargeAll runs all obligations of a function with bounded parallelism (sem is shared across functions).
func dischargeAll(res *FnResult, opt solveOpts, sem chan struct{}) {
	var wg sync.WaitGroup
	start := time.Now()
	scripts := make([]*prepared, len(res.Obls))
	for _, o := range res.Obls {
		if onlyObl != "" && o.Result == "" && !strings.Contains(o.Name, onlyObl) {
			o.Result = "unsat"
			o.Solver = "skipped"
		}
	}
	for i, o := range res.Obls {
		if o.Result != "" {
			continue
		}
		scripts[i] = res.tr.prepare(o, opt, nil)
	}
	budget := opt.budgetS
	if budget <= 0 {
		budget = 600
	}
	deadline := start.Add(time.Duration(budget) * time.Second)
	for i, o := range res.Obls {
		if o.Result != "" {
			continue
		}
		wg.Add(1)
		sem <- struct{}{}
		go func(o *Obligation, sc *prepared) {
			defer wg.Done()
			defer func() { <-sem }()
			if time.Now().After(deadline) {
				o.Result = "timeout"
				o.Output = "per-function time budget exceeded before this obligation was started"
				return
			}
			discharge(o, sc, opt)
		}(o, scripts[i])
	}
	// vacuity probes: a probe must be satisfiable
	pps := make([]*prepared, len(res.Probes))
	for i, o := range res.Probes {
		asserts := res.tr.sliceAll(o)
		g, _, _ := res.tr.f.groundQuery(asserts)
		pps[i] = &prepared{ground: res.tr.f.Script(g, nil)}
	}
	for i, o := range res.Probes {
		wg.Add(1)
		sem <- struct{}{}
		go func(o *Obligation, p *prepared) {
			defer wg.Done()
			defer func() { <-sem }()
			r, _ := raceSolvers(p.ground, 3000, opt.timeoutMs)
			o.Result = r.res
			o.Solver = r.solver
			o.Time = r.secs
		}(o, pps[i])
	}
	wg.Wait()
	res.SolveTime = time.Since(start).Seconds()
}

// provableNow: during translation, is cond valid under the current path condition and assumptions? (quick, z3-new only)
func (tr *Tr) provableNow(cond *Term) bool {
	if cond.IsTrue() {
		return true
	}
	if cond.IsFalse() {
		return false
	}
	fr := tr.fr()
	reach := tr.f.True()
	if fr.cur != nil {
		reach = fr.reach[fr.cur]
	}
	o := &Obligation{Reach: reach, Cond: cond, NAssume: len(tr.assumes)}
	asserts := tr.sliceAssumptions(o, nil)
	g, _, _ := tr.f.groundQuery(asserts)
	sc := tr.f.Script(g, nil)
	r := runSolver(context.Background(), solvers[0], sc.Text, 1500, sc.Quant, false)
	return r.res == "unsat"
}
