package main

import (
	"bytes"
	"context"
	"fmt"
	"os"
	"os/exec"
	"regexp"
	"runtime/debug"
	"strings"
	"sync"
	"time"
)

func stackTrace() string { return string(debug.Stack()) }

type SolverCfg struct {
	Name string
	Cmd  func(timeoutMs int, quant bool) []string
	Head func(timeoutMs int, quant bool) string
}

var solvers = []SolverCfg{
	{Name: "z3-5.1.0", Cmd: func(ms int, q bool) []string { return []string{"z3-new", "-in", fmt.Sprintf("-t:%d", ms)} },
		Head: func(ms int, q bool) string { return "" }},
	{Name: "cvc5-1.0", Cmd: func(ms int, q bool) []string {
		a := []string{"cvc5", "--lang=smt2", fmt.Sprintf("--tlimit=%d", ms), "--produce-models"}
		if q {
			a = append(a, "--enum-inst")
		}
		return a
	}, Head: func(ms int, q bool) string { return "(set-logic ALL)\n" }},
	{Name: "z3-4.8.12", Cmd: func(ms int, q bool) []string { return []string{"/usr/bin/z3", "-in", fmt.Sprintf("-t:%d", ms)} },
		Head: func(ms int, q bool) string {
			if q {
				return "(set-option :smt.auto_config false)\n(set-option :smt.mbqi false)\n"
			}
			return ""
		}},
}

type solveOut struct {
	res    string // unsat sat unknown timeout error
	solver string
	out    string
	secs   float64
}

func runSolver(ctx context.Context, sc SolverCfg, script string, ms int, quant bool, wantModel bool) solveOut {
	start := time.Now()
	args := sc.Cmd(ms, quant)
	cctx, cancel := context.WithTimeout(ctx, time.Duration(ms+1500)*time.Millisecond)
	defer cancel()
	cmd := exec.CommandContext(cctx, args[0], args[1:]...)
	full := sc.Head(ms, quant) + script + "(check-sat)\n"
	cmd.Stdin = strings.NewReader(full)
	var out bytes.Buffer
	cmd.Stdout = &out
	cmd.Stderr = &out
	_ = cmd.Run()
	o := solveOut{solver: sc.Name, out: out.String(), secs: time.Since(start).Seconds()}
	first := strings.TrimSpace(strings.SplitN(out.String(), "\n", 2)[0])
	switch first {
	case "unsat", "sat", "unknown":
		o.res = first
	case "timeout":
		o.res = "timeout"
	default:
		if cctx.Err() != nil {
			o.res = "timeout"
		} else if strings.Contains(out.String(), "interrupted") || strings.Contains(out.String(), "timeout") {
			o.res = "timeout"
		} else {
			o.res = "error"
		}
	}
	return o
}

var valueRe = regexp.MustCompile(`\(([^\s()]+)\s+(#x[0-9a-fA-F]+|#b[01]+|true|false|\(- \d+\)|\d+)\)`)

func getModel(sc SolverCfg, script string, vars []*Term, ms int, quant bool) map[string]string {
	var names []string
	for _, v := range vars {
		if v.S.K == KArr {
			continue
		}
		names = append(names, v.Name)
	}
	if len(names) == 0 {
		return map[string]string{}
	}
	args := sc.Cmd(ms, quant)
	cmd := exec.Command(args[0], args[1:]...)
	head := sc.Head(ms, quant)
	if !strings.Contains(args[0], "cvc5") {
		head = "(set-option :produce-models true)\n" + head
	}
	cmd.Stdin = strings.NewReader(head + script + "(check-sat)\n(get-value (" + strings.Join(names, " ") + "))\n")
	var out bytes.Buffer
	cmd.Stdout = &out
	done := make(chan struct{})
	go func() { _ = cmd.Run(); close(done) }()
	select {
	case <-done:
	case <-time.After(time.Duration(ms+2000) * time.Millisecond):
		if cmd.Process != nil {
			_ = cmd.Process.Kill()
		}
		<-done
	}
	m := map[string]string{}
	for _, mm := range valueRe.FindAllStringSubmatch(out.String(), -1) {
		m[mm[1]] = mm[2]
	}
	return m
}

// relevant assumptions: connected to the goal through shared variables.
func (tr *Tr) sliceAssumptions(o *Obligation, extra []*Term) []*Term {
	f := tr.f
	goal := f.And(o.Reach, f.Not(o.Cond))
	syms := map[string]bool{}
	collectSyms(goal, map[*Term]bool{}, syms)
	for _, e := range extra {
		collectSyms(e, map[*Term]bool{}, syms)
	}
	type cand struct {
		t    *Term
		syms map[string]bool
		used bool
	}
	var cands []*cand
	for _, a := range tr.assumes[:o.NAssume] {
		c := &cand{t: a.T, syms: map[string]bool{}}
		collectSyms(a.T, map[*Term]bool{}, c.syms)
		cands = append(cands, c)
	}
	changed := true
	for changed {
		changed = false
		for _, c := range cands {
			if c.used {
				continue
			}
			hit := len(c.syms) == 0
			for s := range c.syms {
				if syms[s] {
					hit = true
					break
				}
			}
			if hit {
				c.used = true
				changed = true
				for s := range c.syms {
					syms[s] = true
				}
			}
		}
	}
	var out []*Term
	for _, c := range cands {
		if c.used {
			out = append(out, c.t)
		}
	}
	out = append(out, extra...)
	out = append(out, goal)
	return out
}

type solveOpts struct {
	timeoutMs int
	dumpDir   string
	first     int // ms for the first, single-solver attempt
}

// prepare builds the SMT script of an obligation (sequential: the term factory is not thread-safe).
func (tr *Tr) prepare(o *Obligation, opt solveOpts, extra []*Term) *Script {
	asserts := tr.sliceAssumptions(o, extra)
	sc := tr.f.Script(asserts, nil)
	o.SmtSize = len(sc.Text)
	if opt.dumpDir != "" {
		_ = os.WriteFile(fmt.Sprintf("%s/%s__%s.smt2", opt.dumpDir, sanitize(funcDisplay(tr.top)), sanitize(o.Name)), []byte(sc.Text), 0o644)
	}
	return sc
}

// discharge one obligation: first z3-new alone, then race all solvers.
func discharge(o *Obligation, sc *Script, opt solveOpts) {
	start := time.Now()
	defer func() { o.Time = time.Since(start).Seconds() }()
	ctx := context.Background()
	first := opt.first
	if first <= 0 {
		first = 2000
	}
	if first > opt.timeoutMs {
		first = opt.timeoutMs
	}
	r := runSolver(ctx, solvers[0], sc.Text, first, sc.Quant, false)
	tried := []solveOut{r}
	if r.res != "unsat" && r.res != "sat" {
		// race
		cctx, cancel := context.WithCancel(ctx)
		ch := make(chan solveOut, len(solvers))
		for _, s := range solvers {
			s := s
			go func() { ch <- runSolver(cctx, s, sc.Text, opt.timeoutMs, sc.Quant, false) }()
		}
		got := 0
		for got < len(solvers) {
			x := <-ch
			got++
			tried = append(tried, x)
			if x.res == "unsat" || x.res == "sat" {
				r = x
				break
			}
		}
		cancel()
	}
	var sb strings.Builder
	for _, t := range tried {
		fmt.Fprintf(&sb, "[%s %.2fs] %s\n", t.solver, t.secs, strings.TrimSpace(firstLines(t.out, 3)))
	}
	o.Output = sb.String()
	if r.res == "unsat" || r.res == "sat" {
		o.Result = r.res
		o.Solver = r.solver
	} else {
		o.Result = "unknown"
		for _, t := range tried {
			if t.res == "timeout" {
				o.Result = "timeout"
			}
		}
		for _, t := range tried {
			if t.res == "error" {
				o.Output += "ERROR OUTPUT: " + firstLines(t.out, 6) + "\n"
			}
		}
	}
	if o.Result == "sat" {
		for _, s := range solvers {
			if s.Name == o.Solver {
				o.Model = getModel(s, sc.Text, sc.Vars, opt.timeoutMs, sc.Quant)
			}
		}
	}
}

func firstLines(s string, n int) string {
	ls := strings.Split(s, "\n")
	if len(ls) > n {
		ls = ls[:n]
	}
	return strings.Join(ls, "\n")
}

// dischargeAll runs all obligations of a function with bounded parallelism (sem is shared across functions).
func dischargeAll(res *FnResult, opt solveOpts, sem chan struct{}) {
	var wg sync.WaitGroup
	start := time.Now()
	scripts := make([]*Script, len(res.Obls))
	for i, o := range res.Obls {
		if o.Result != "" {
			continue
		}
		scripts[i] = res.tr.prepare(o, opt, nil)
	}
	for i, o := range res.Obls {
		if o.Result != "" {
			continue
		}
		wg.Add(1)
		sem <- struct{}{}
		go func(o *Obligation, sc *Script) {
			defer wg.Done()
			defer func() { <-sem }()
			discharge(o, sc, opt)
		}(o, scripts[i])
	}
	wg.Wait()
	res.SolveTime = time.Since(start).Seconds()
}
