package main

import (
	"bytes"
	"context"
	"fmt"
	"os"
	"os/exec"
	"regexp"
	"runtime/debug"
	"strings"
	"sync"
	"time"
)

func stackTrace() string { return string(debug.Stack()) }

type SolverCfg struct {
	Name string
	Cmd  func(timeoutMs int, quant bool) []string
	Head func(timeoutMs int, quant bool) string
}

var solvers = []SolverCfg{
	{Name: "z3-5.1.0", Cmd: func(ms int, q bool) []string { return []string{"z3-new", "-in", fmt.Sprintf("-t:%d", ms)} },
		Head: func(ms int, q bool) string { return "" }},
	{Name: "cvc5-1.0", Cmd: func(ms int, q bool) []string {
		a := []string{"cvc5", "--lang=smt2", fmt.Sprintf("--tlimit=%d", ms), "--produce-models"}
		if q {
			a = append(a, "--enum-inst")
		}
		return a
	}, Head: func(ms int, q bool) string { return "(set-logic ALL)\n" }},
	{Name: "z3-4.8.12", Cmd: func(ms int, q bool) []string { return []string{"/usr/bin/z3", "-in", fmt.Sprintf("-t:%d", ms)} },
		Head: func(ms int, q bool) string {
			if q {
				return "(set-option :smt.auto_config false)\n(set-option :smt.mbqi false)\n"
			}
			return ""
		}},
}

type solveOut struct {
	res    string // unsat sat unknown timeout error
	solver string
	out    string
	secs   float64
}

var procSem = make(chan struct{}, 16)

func runSolver(ctx context.Context, sc SolverCfg, script string, ms int, quant bool, wantModel bool) solveOut {
	procSem <- struct{}{}
	defer func() { <-procSem }()
	if ctx.Err() != nil {
		return solveOut{solver: sc.Name, res: "unknown", out: "cancelled"}
	}
	start := time.Now()
	args := sc.Cmd(ms, quant)
	cctx, cancel := context.WithTimeout(ctx, time.Duration(ms+1500)*time.Millisecond)
	defer cancel()
	cmd := exec.CommandContext(cctx, args[0], args[1:]...)
	full := sc.Head(ms, quant) + script + "(check-sat)\n"
	cmd.Stdin = strings.NewReader(full)
	var out bytes.Buffer
	cmd.Stdout = &out
	cmd.Stderr = &out
	_ = cmd.Run()
	o := solveOut{solver: sc.Name, out: out.String(), secs: time.Since(start).Seconds()}
	first := strings.TrimSpace(strings.SplitN(out.String(), "\n", 2)[0])
	switch first {
	case "unsat", "sat", "unknown":
		o.res = first
	case "timeout":
		o.res = "timeout"
	default:
		if cctx.Err() != nil {
			o.res = "timeout"
		} else if strings.Contains(out.String(), "interrupted") || strings.Contains(out.String(), "timeout") {
			o.res = "timeout"
		} else {
			o.res = "error"
		}
	}
	return o
}

var valueRe = regexp.MustCompile(`\(([^\s()]+)\s+(#x[0-9a-fA-F]+|#b[01]+|true|false|\(- \d+\)|\d+)\)`)

func getModel(sc SolverCfg, script string, vars []*Term, ms int, quant bool) map[string]string {
	var names []string
	for _, v := range vars {
		if v.S.K == KArr {
			continue
		}
		names = append(names, v.Name)
	}
	if len(names) == 0 {
		return map[string]string{}
	}
	args := sc.Cmd(ms, quant)
	cmd := exec.Command(args[0], args[1:]...)
	head := sc.Head(ms, quant)
	if !strings.Contains(args[0], "cvc5") {
		head = "(set-option :produce-models true)\n" + head
	}
	cmd.Stdin = strings.NewReader(head + script + "(check-sat)\n(get-value (" + strings.Join(names, " ") + "))\n")
	var out bytes.Buffer
	cmd.Stdout = &out
	done := make(chan struct{})
	go func() { _ = cmd.Run(); close(done) }()
	select {
	case <-done:
	case <-time.After(time.Duration(ms+2000) * time.Millisecond):
		if cmd.Process != nil {
			_ = cmd.Process.Kill()
		}
		<-done
	}
	m := map[string]string{}
	for _, mm := range valueRe.FindAllStringSubmatch(out.String(), -1) {
		m[mm[1]] = mm[2]
	}
	return m
}

// relevant assumptions: connected to the goal through shared variables.
func (tr *Tr) sliceAssumptions(o *Obligation, extra []*Term) []*Term {
	f := tr.f
	goal := f.And(o.Reach, f.Not(o.Cond))
	syms := map[string]bool{}
	collectSyms(goal, map[*Term]bool{}, syms)
	for _, e := range extra {
		collectSyms(e, map[*Term]bool{}, syms)
	}
	type cand struct {
		t    *Term
		syms map[string]bool
		used bool
	}
	var cands []*cand
	for _, a := range tr.assumes[:o.NAssume] {
		c := &cand{t: a.T, syms: map[string]bool{}}
		collectSyms(a.T, map[*Term]bool{}, c.syms)
		cands = append(cands, c)
	}
	changed := true
	for changed {
		changed = false
		for _, c := range cands {
			if c.used {
				continue
			}
			hit := len(c.syms) == 0
			for s := range c.syms {
				if syms[s] {
					hit = true
					break
				}
			}
			if hit {
				c.used = true
				changed = true
				for s := range c.syms {
					syms[s] = true
				}
			}
		}
	}
	var out []*Term
	for _, c := range cands {
		if c.used {
			out = append(out, c.t)
		}
	}
	out = append(out, extra...)
	out = append(out, goal)
	return out
}

// sliceAll: every assumption visible to o plus its reach condition (vacuity probes use no slicing).
func (tr *Tr) sliceAll(o *Obligation) []*Term {
	var out []*Term
	for _, a := range tr.assumes[:o.NAssume] {
		out = append(out, a.T)
	}
	return append(out, o.Reach)
}

type solveOpts struct {
	timeoutMs int
	dumpDir   string
	first     int // ms for the first, single-solver attempt
}

// prepare builds the SMT scripts of an obligation (sequential: the term factory is not thread-safe).
// Scripts[0] is the ground-instantiated query (quantifier-free when possible), Scripts[1] the full query when it differs.
type prepared struct {
	ground       *Script
	full         *Script
	instantiated bool
	cases        []*Script // ground query under each declared case (discharged only if the plain query is undecided)
}

func (tr *Tr) prepare(o *Obligation, opt solveOpts, extra []*Term) *prepared {
	asserts := tr.sliceAssumptions(o, extra)
	g, inst, _ := tr.f.groundQuery(asserts)
	p := &prepared{instantiated: inst}
	p.ground = tr.f.Script(g, nil)
	if inst {
		p.full = tr.f.Script(asserts, nil)
	}
	o.SmtSize = len(p.ground.Text)
	if extra == nil && o.Kind != "split-cover" {
		for _, c := range tr.splitCases {
			as2 := tr.sliceAssumptions(o, c)
			// substitute the case values (lets the simplifier fold multiplications by a now-constant factor)
			sub := map[*Term]*Term{}
			for _, e := range c {
				if e.Op == "=" && e.Args[1].IsConst() {
					sub[e.Args[0]] = e.Args[1]
				} else if e.Op == "=" && e.Args[0].IsConst() {
					sub[e.Args[1]] = e.Args[0]
				}
			}
			for i, a := range as2 {
				keep := false
				for _, e := range c {
					if a == e {
						keep = true
					}
				}
				if !keep {
					as2[i] = tr.f.Subst(a, sub)
				}
			}
			g2, _, _ := tr.f.groundQuery(as2)
			p.cases = append(p.cases, tr.f.Script(g2, nil))
		}
	}
	if opt.dumpDir != "" {
		base := fmt.Sprintf("%s/%s__%s", opt.dumpDir, sanitize(funcDisplay(tr.top)), sanitize(o.Name))
		_ = os.WriteFile(base+".smt2", []byte(p.ground.Text), 0o644)
		if p.full != nil {
			_ = os.WriteFile(base+".full.smt2", []byte(p.full.Text), 0o644)
		}
		for i, c := range p.cases {
			_ = os.WriteFile(fmt.Sprintf("%s.case%d.smt2", base, i), []byte(c.Text), 0o644)
		}
	}
	return p
}

func raceSolvers(sc *Script, first, timeoutMs int) (solveOut, []solveOut) {
	ctx := context.Background()
	r := runSolver(ctx, solvers[0], sc.Text, first, sc.Quant, false)
	tried := []solveOut{r}
	if r.res != "unsat" && r.res != "sat" && timeoutMs > first {
		cctx, cancel := context.WithCancel(ctx)
		ch := make(chan solveOut, len(solvers))
		for _, s := range solvers {
			s := s
			go func() { ch <- runSolver(cctx, s, sc.Text, timeoutMs, sc.Quant, false) }()
		}
		got := 0
		for got < len(solvers) {
			x := <-ch
			got++
			tried = append(tried, x)
			if x.res == "unsat" || x.res == "sat" {
				r = x
				break
			}
		}
		cancel()
	}
	return r, tried
}

// discharge one obligation: ground query first (z3-new alone, then a race of all solvers); if that yields only a
// candidate model, the full quantified query is raced as well.
func discharge(o *Obligation, p *prepared, opt solveOpts) {
	start := time.Now()
	defer func() { o.Time = time.Since(start).Seconds() }()
	first := opt.first
	if first <= 0 {
		first = 2000
	}
	if first > opt.timeoutMs {
		first = opt.timeoutMs
	}
	var r solveOut
	var tried []solveOut
	if len(p.cases) == 0 {
		r, tried = raceSolvers(p.ground, first, opt.timeoutMs)
	} else {
		// cheap attempt on the unsplit query; the case split handles what it cannot
		r, tried = raceSolvers(p.ground, 1000, 1000)
	}
	modelScript := p.ground
	if r.res != "unsat" && r.res != "sat" && len(p.cases) > 0 {
		// case by case, in parallel
		type caseRes struct {
			i     int
			r     solveOut
			tried []solveOut
		}
		ch := make(chan caseRes, len(p.cases))
		for i, cs := range p.cases {
			go func(i int, cs *Script) {
				rc, tc := raceSolvers(cs, first, opt.timeoutMs)
				ch <- caseRes{i, rc, tc}
			}(i, cs)
		}
		all := true
		var worst *caseRes
		for range p.cases {
			cr := <-ch
			if cr.r.res != "unsat" {
				all = false
				if worst == nil || (cr.r.res == "sat" && worst.r.res != "sat") {
					c := cr
					worst = &c
				}
			}
		}
		if all {
			r = solveOut{res: "unsat", solver: fmt.Sprintf("z3-5.1.0 (case split into %d)", len(p.cases))}
			tried = append(tried, r)
		} else {
			for j := range worst.tried {
				worst.tried[j].solver += fmt.Sprintf(" (case %d/%d)", worst.i+1, len(p.cases))
			}
			tried = append(tried, worst.tried...)
			r = worst.r
			r.solver += fmt.Sprintf(" (case %d/%d)", worst.i+1, len(p.cases))
			if r.res == "sat" {
				modelScript = p.cases[worst.i]
			}
		}
	}
	if p.instantiated && r.res != "unsat" {
		r2, tried2 := raceSolvers(p.full, first, opt.timeoutMs)
		for i := range tried2 {
			tried2[i].solver += " (quantified)"
		}
		tried = append(tried, tried2...)
		if r2.res == "unsat" {
			r = r2
		} else if r.res == "sat" {
			o.Candidate = true
		}
	}
	var sb strings.Builder
	for _, t := range tried {
		fmt.Fprintf(&sb, "[%s %.2fs] %s\n", t.solver, t.secs, strings.TrimSpace(firstLines(t.out, 3)))
	}
	o.Output = sb.String()
	if r.res == "unsat" || r.res == "sat" {
		o.Result = r.res
		o.Solver = r.solver
		if p.instantiated && r.res == "unsat" && !strings.Contains(r.solver, "quantified") {
			o.Solver += " (ground-instantiated)"
		}
	} else {
		o.Result = "unknown"
		for _, t := range tried {
			if t.res == "timeout" {
				o.Result = "timeout"
			}
		}
		for _, t := range tried {
			if t.res == "error" {
				o.Output += "ERROR OUTPUT: " + firstLines(t.out, 6) + "\n"
			}
		}
	}
	if o.Result == "sat" {
		for _, s := range solvers {
			if strings.HasPrefix(o.Solver, s.Name) {
				o.Model = getModel(s, modelScript.Text, modelScript.Vars, opt.timeoutMs, modelScript.Quant)
			}
		}
	}
}

func firstLines(s string, n int) string {
	ls := strings.Split(s, "\n")
	if len(ls) > n {
		ls = ls[:n]
	}
	return strings.Join(ls, "\n")
}

// dischargeAll runs all obligations of a function with bounded parallelism (sem is shared across functions).
func dischargeAll(res *FnResult, opt solveOpts, sem chan struct{}) {
	var wg sync.WaitGroup
	start := time.Now()
	scripts := make([]*prepared, len(res.Obls))
	for i, o := range res.Obls {
		if o.Result != "" {
			continue
		}
		scripts[i] = res.tr.prepare(o, opt, nil)
	}
	for i, o := range res.Obls {
		if o.Result != "" {
			continue
		}
		wg.Add(1)
		sem <- struct{}{}
		go func(o *Obligation, sc *prepared) {
			defer wg.Done()
			defer func() { <-sem }()
			discharge(o, sc, opt)
		}(o, scripts[i])
	}
	// vacuity probes: a probe must be satisfiable
	pps := make([]*prepared, len(res.Probes))
	for i, o := range res.Probes {
		asserts := res.tr.sliceAll(o)
		g, _, _ := res.tr.f.groundQuery(asserts)
		pps[i] = &prepared{ground: res.tr.f.Script(g, nil)}
	}
	for i, o := range res.Probes {
		wg.Add(1)
		sem <- struct{}{}
		go func(o *Obligation, p *prepared) {
			defer wg.Done()
			defer func() { <-sem }()
			r, _ := raceSolvers(p.ground, 3000, opt.timeoutMs)
			o.Result = r.res
			o.Solver = r.solver
			o.Time = r.secs
		}(o, pps[i])
	}
	wg.Wait()
	res.SolveTime = time.Since(start).Seconds()
}
