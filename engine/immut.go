package main

import (
	"fmt"
	"go/token"
	"go/types"
	"sort"
	"strings"

	"golang.org/x/tools/go/ssa"
)

// Immutable struct fields.
//
// A field f of a named repository struct type S is *immutable after construction* when no function of the repository
//   - stores to &x.f (or into a part of it) unless x is an object allocated in that same function (being initialised),
//   - lets the address &x.f (or of a part of it) escape (passes it to a call, stores it, slices it, converts it),
//   - assigns a whole value of a struct type containing S-typed fields through a pointer that is not a fresh allocation,
//   - hands a *S to a function outside the repository (other than the printing/logging/error packages).
// For such fields an unknown call (havoc) cannot change the slot in objects that existed before the call. unsafe, reflect
// and assembly are outside this analysis (listed as an assumption in the evidence).

func fieldKey(t types.Type, idx int) string {
	return types.TypeString(t, nil) + "#" + fmt.Sprint(idx)
}

func namedStruct(t types.Type) (*types.Named, *types.Struct) {
	n, ok := t.(*types.Named)
	if !ok {
		if a, ok := t.(*types.Alias); ok {
			return namedStruct(types.Unalias(a))
		}
		return nil, nil
	}
	st, ok := n.Underlying().(*types.Struct)
	if !ok {
		return nil, nil
	}
	return n, st
}

func (P *Program) computeFieldMut() {
	P.fieldMut = map[string]bool{}
	var markAll func(t types.Type, depth int)
	markAll = func(t types.Type, depth int) {
		if depth > 6 {
			return
		}
		switch u := t.Underlying().(type) {
		case *types.Struct:
			for i := 0; i < u.NumFields(); i++ {
				if n, _ := namedStruct(t); n != nil {
					P.fieldMut[fieldKey(n, i)] = true
				}
				markAll(u.Field(i).Type(), depth+1)
			}
		case *types.Array:
			markAll(u.Elem(), depth+1)
		}
	}
	freshRoot := func(v ssa.Value) bool {
		for {
			switch x := v.(type) {
			case *ssa.FieldAddr:
				v = x.X
			case *ssa.IndexAddr:
				if _, isPtr := x.X.Type().Underlying().(*types.Pointer); !isPtr {
					return false // element of a slice: somebody else's memory
				}
				v = x.X
			case *ssa.Alloc:
				return true
			default:
				return false
			}
		}
	}
	quietPkg := func(fn *ssa.Function) bool {
		if fn == nil || fn.Pkg == nil {
			return false
		}
		switch fn.Pkg.Pkg.Path() {
		case "fmt", "log", "errors", "github.com/sirupsen/logrus", "reflect", "testing":
			return true
		}
		return false
	}
	// addrUse: are all uses of this address loads, stores into a fresh object, or further projections used that way?
	var addrUse func(v ssa.Value, depth int) bool
	addrUse = func(v ssa.Value, depth int) bool {
		if depth > 8 {
			return false
		}
		refs := v.Referrers()
		if refs == nil {
			return true
		}
		for _, r := range *refs {
			switch x := r.(type) {
			case *ssa.DebugRef:
			case *ssa.UnOp:
				if x.Op != token.MUL {
					return false
				}
			case *ssa.Store:
				if x.Val == v {
					return false
				}
				if !freshRoot(v) {
					return false
				}
			case *ssa.FieldAddr:
				if x.X != v || !addrUse(x, depth+1) {
					return false
				}
			case *ssa.IndexAddr:
				if x.X != v || !addrUse(x, depth+1) {
					return false
				}
			default:
				return false
			}
		}
		return true
	}
	for fn := range P.allRepoFuncs() {
		for _, b := range fn.Blocks {
			for _, in := range b.Instrs {
				switch x := in.(type) {
				case *ssa.FieldAddr:
					pt, ok := x.X.Type().Underlying().(*types.Pointer)
					if !ok {
						continue
					}
					n, _ := namedStruct(pt.Elem())
					if n == nil {
						continue
					}
					if !addrUse(x, 0) {
						P.fieldMut[fieldKey(n, x.Field)] = true
					}
				case *ssa.Store:
					// whole-value assignment through a pointer that is not a fresh allocation
					switch x.Val.Type().Underlying().(type) {
					case *types.Struct, *types.Array:
						if !freshRoot(x.Addr) {
							markAll(x.Val.Type(), 0)
						}
					}
				case ssa.CallInstruction:
					cc := x.Common()
					sf := cc.StaticCallee()
					foreign := sf != nil && !P.isRepoFunc(sf) && !quietPkg(sf)
					if cc.IsInvoke() && !repoIfaceType(cc.Value.Type()) {
						foreign = true
					}
					if !foreign {
						continue
					}
					for _, a := range cc.Args {
						at := a.Type()
						if mi, ok := a.(*ssa.MakeInterface); ok {
							at = mi.X.Type()
						}
						if pt, ok := at.Underlying().(*types.Pointer); ok {
							markAll(pt.Elem(), 0)
						}
						if sl, ok := at.Underlying().(*types.Slice); ok {
							if pt, ok := sl.Elem().Underlying().(*types.Pointer); ok {
								markAll(pt.Elem(), 0)
							} else {
								markAll(sl.Elem(), 0)
							}
						}
					}
				}
			}
		}
	}
}

// immutableFields: indices of the fields of named struct n that are immutable after construction.
func (P *Program) immutableFields(n *types.Named) []int {
	P.immutMu.Lock()
	if P.fieldMut == nil {
		P.computeFieldMut()
	}
	P.immutMu.Unlock()
	st, ok := n.Underlying().(*types.Struct)
	if !ok || n.Obj().Pkg() == nil || !strings.HasPrefix(n.Obj().Pkg().Path(), modPath) {
		return nil
	}
	var out []int
	for i := 0; i < st.NumFields(); i++ {
		if !P.fieldMut[fieldKey(n, i)] {
			out = append(out, i)
		}
	}
	return out
}

// relevantStructs: named repository struct types reachable (through pointers, fields, slices, depth <= 4) from the
// signature of the function under verification.
func (tr *Tr) relevantStructs() []*types.Named {
	if tr.relStructs != nil {
		return tr.relStructs
	}
	seen := map[string]*types.Named{}
	var walk func(t types.Type, d int)
	walk = func(t types.Type, d int) {
		if d > 5 || t == nil {
			return
		}
		if n, st := namedStruct(t); n != nil {
			k := types.TypeString(n, nil)
			if _, ok := seen[k]; ok {
				return
			}
			if n.Obj().Pkg() != nil && strings.HasPrefix(n.Obj().Pkg().Path(), modPath) {
				seen[k] = n
			}
			for i := 0; i < st.NumFields(); i++ {
				walk(st.Field(i).Type(), d+1)
			}
			return
		}
		switch u := t.Underlying().(type) {
		case *types.Pointer:
			walk(u.Elem(), d)
		case *types.Slice:
			walk(u.Elem(), d+1)
		case *types.Array:
			walk(u.Elem(), d+1)
		case *types.Struct:
			for i := 0; i < u.NumFields(); i++ {
				walk(u.Field(i).Type(), d+1)
			}
		}
	}
	sig := tr.top.Signature
	if sig.Recv() != nil {
		walk(sig.Recv().Type(), 0)
	}
	for i := 0; i < sig.Params().Len(); i++ {
		walk(sig.Params().At(i).Type(), 0)
	}
	for i := 0; i < sig.Results().Len(); i++ {
		walk(sig.Results().At(i).Type(), 0)
	}
	for _, fv := range tr.top.FreeVars {
		walk(fv.Type(), 0)
	}
	var keys []string
	for k := range seen {
		keys = append(keys, k)
	}
	sort.Strings(keys)
	tr.relStructs = []*types.Named{}
	tr.relStructsAll = []*types.Named{}
	for _, k := range keys {
		tr.relStructsAll = append(tr.relStructsAll, seen[k])
		if len(tr.P.immutableFields(seen[k])) > 0 {
			tr.relStructs = append(tr.relStructs, seen[k])
		}
	}
	return tr.relStructs
}

// typeFactStructs: every struct type reachable from the signature (with or without immutable fields).
func (tr *Tr) typeFactStructs() []*types.Named {
	tr.relevantStructs()
	return tr.relStructsAll
}

// keepImmutableFields: after a havoc that replaced the heap (old -> current), objects that existed before keep the slots of
// their immutable fields.
func (tr *Tr) keepImmutableFields(st *State, old map[string]*Term, allocBefore *Term) {
	tr.keepImmutableFieldsExcept(st, old, allocBefore, nil)
}

// keepStableFields: like keepImmutableFields, but relative to the callee that caused the havoc (fields it cannot store into).
func (tr *Tr) keepStableFields(st *State, old map[string]*Term, allocBefore *Term, callee *ssa.Function) {
	tr.stableCallee = callee
	tr.keepImmutableFieldsExcept(st, old, allocBefore, nil)
	tr.stableCallee = nil
}

// initialisedIn: struct types whose fields fn stores into through a pointer it allocated itself (object under construction).
func initialisedIn(fn *ssa.Function) map[string]bool {
	out := map[string]bool{}
	for _, b := range fn.Blocks {
		for _, in := range b.Instrs {
			st, ok := in.(*ssa.Store)
			if !ok {
				continue
			}
			v := st.Addr
			for {
				switch x := v.(type) {
				case *ssa.FieldAddr:
					if pt, ok := x.X.Type().Underlying().(*types.Pointer); ok {
						if n, _ := namedStruct(pt.Elem()); n != nil {
							out[types.TypeString(n, nil)] = true
						}
					}
					v = x.X
					continue
				case *ssa.IndexAddr:
					v = x.X
					continue
				}
				break
			}
		}
	}
	return out
}

func (tr *Tr) keepImmutableFieldsExcept(st *State, old map[string]*Term, allocBefore *Term, skip map[string]bool) {
	f := tr.f
	structs := tr.relevantStructs()
	if tr.stableCallee != nil {
		structs = tr.typeFactStructs()
	}
	for _, n := range structs {
		if skip[types.TypeString(n, nil)] {
			continue
		}
		stt := n.Underlying().(*types.Struct)
		r := f.BoundVar("r", S64)
		var eqs []*Term
		var pats [][]*Term
		var names []string
		for _, i := range tr.stableFieldsFor(n, tr.stableCallee) {
			off := fieldOffset(stt, i)
			for j, l := range shape(stt.Field(i).Type()) {
				k := heapKey(l.S)
				nh := tr.get(st, heapComp(k))
				oh := old[k]
				if nh == oh {
					continue
				}
				idx := f.BVi(64, int64(off+j))
				eqs = append(eqs, f.Eq(f.Select(f.Select(nh, r), idx), f.Select(f.Select(oh, r), idx)))
			}
			names = append(names, stt.Field(i).Name())
		}
		if len(eqs) == 0 {
			continue
		}
		for _, k := range heapKeys {
			if nh := tr.get(st, heapComp(k)); nh != old[k] {
				pats = append(pats, []*Term{f.Select(nh, r)})
			}
		}
		cond := f.And(f.ULt(r, allocBefore), f.Eq(tr.rtype(r), f.BVu(64, typeTag(n))))
		tr.assume(f.Forall([]*Term{r}, f.Implies(cond, f.And(eqs...)), pats...),
			"fields of "+n.Obj().Name()+" never assigned after construction keep their value across an unknown call: "+strings.Join(names, ", "))
		if tr.stableCallee != nil {
			tr.note("fields of " + types.TypeString(n, nil) + " that a call to " + funcDisplay(tr.stableCallee) + " cannot store into (no store to them in its call graph, address never escapes; unsafe/reflect not analysed) or that are immutable after construction: " + strings.Join(names, ", "))
		} else {
			tr.note("immutable-after-construction fields of " + types.TypeString(n, nil) + " (no store outside the allocating function, address never escapes; unsafe/reflect not analysed): " + strings.Join(names, ", "))
		}
	}
}

// containsByValue: does a value of type outer contain a value of type inner (as itself, a field, or an array element)?
func containsByValue(outer, inner types.Type, depth int) bool {
	if depth > 8 {
		return true
	}
	if types.Identical(outer, inner) {
		return true
	}
	switch u := outer.Underlying().(type) {
	case *types.Struct:
		for i := 0; i < u.NumFields(); i++ {
			if containsByValue(u.Field(i).Type(), inner, depth+1) {
				return true
			}
		}
	case *types.Array:
		return containsByValue(u.Elem(), inner, depth+1)
	}
	return false
}

// pointerTypeFacts: a non-nil pointer of static type *T points into an object whose allocation type contains a T. So the
// region it points into was not allocated as a struct type S that contains no T (Go's type safety; unsafe is not analysed).
// Only the struct types with immutable fields that matter for this function are excluded explicitly.
func (tr *Tr) pointerTypeFacts(fr *Frame, elem types.Type, p Val) {
	if _, st := namedStruct(elem); st == nil {
		return
	}
	f := tr.f
	for _, n := range tr.typeFactStructs() {
		if containsByValue(n, elem, 0) {
			continue
		}
		key := fmt.Sprintf("p%d|%d|%p", p[0].id, typeTag(n), fr.cur)
		if tr.typeFactCache[key] {
			continue
		}
		tr.typeFactCache[key] = true
		tr.assumeHere(f.Or(f.Eq(p[0], f.BVi(64, 0)), f.Neq(tr.rtype(p[0]), f.BVu(64, typeTag(n)))),
			"a *"+types.TypeString(elem, nil)+" does not point into an object allocated as "+n.Obj().Name())
	}
}

// sliceTypeFacts: the backing array of a non-nil []E lives in an object that contains E values, so not in an object allocated
// as a struct type S without any E inside (same reasoning as pointerTypeFacts).
func (tr *Tr) sliceTypeFacts(elem types.Type, reg *Term) {
	f := tr.f
	for _, n := range tr.typeFactStructs() {
		if containsByValue(n, elem, 0) {
			continue
		}
		key := fmt.Sprintf("s%d|%d|%p", reg.id, typeTag(n), tr.fr().cur)
		if tr.typeFactCache[key] {
			continue
		}
		tr.typeFactCache[key] = true
		tr.assumeHere(f.Or(f.Eq(reg, f.BVi(64, 0)), f.Neq(tr.rtype(reg), f.BVu(64, typeTag(n)))),
			"the backing array of a []"+types.TypeString(elem, nil)+" is not inside an object allocated as "+n.Obj().Name())
	}
}

// ---------- callee-relative stability: which struct fields can a call to fn store into (transitively)?

// storeSet: keys (fieldKey) of the fields fn or anything it can call may store into; all=true when unknown code is reached
// that could store anywhere (a call through an unresolvable function value).
type storeSet struct {
	fields map[string]bool
	all    bool
}

func (P *Program) mayStoreFields(fn *ssa.Function) *storeSet {
	P.immutMu.Lock()
	if P.storeSets == nil {
		P.storeSets = map[*ssa.Function]*storeSet{}
	}
	if ss, ok := P.storeSets[fn]; ok {
		P.immutMu.Unlock()
		return ss
	}
	P.immutMu.Unlock()
	P.mayEffect(nil, "devwrite") // builds byMethod / bySig
	out := &storeSet{fields: map[string]bool{}}
	seen := map[*ssa.Function]bool{}
	var markAll func(t types.Type, depth int)
	markAll = func(t types.Type, depth int) {
		if depth > 6 {
			return
		}
		switch u := t.Underlying().(type) {
		case *types.Struct:
			for i := 0; i < u.NumFields(); i++ {
				if n, _ := namedStruct(t); n != nil {
					out.fields[fieldKey(n, i)] = true
				}
				markAll(u.Field(i).Type(), depth+1)
			}
		case *types.Array:
			markAll(u.Elem(), depth+1)
		}
	}
	var rec func(f *ssa.Function)
	rec = func(f *ssa.Function) {
		if f == nil || seen[f] || out.all {
			return
		}
		seen[f] = true
		if !P.isRepoFunc(f) {
			// foreign code stores only through what it is handed (handled at the call site below)
			return
		}
		for _, b := range f.Blocks {
			for _, in := range b.Instrs {
				switch x := in.(type) {
				case *ssa.Store:
					v := x.Addr
					for {
						switch y := v.(type) {
						case *ssa.FieldAddr:
							if pt, ok := y.X.Type().Underlying().(*types.Pointer); ok {
								if n, _ := namedStruct(pt.Elem()); n != nil {
									out.fields[fieldKey(n, y.Field)] = true
								}
							}
							v = y.X
							continue
						case *ssa.IndexAddr:
							v = y.X
							continue
						}
						break
					}
					switch x.Val.Type().Underlying().(type) {
					case *types.Struct, *types.Array:
						markAll(x.Val.Type(), 0)
					}
				case *ssa.MakeClosure:
					rec(x.Fn.(*ssa.Function))
				case ssa.CallInstruction:
					cc := x.Common()
					if _, isB := cc.Value.(*ssa.Builtin); isB {
						continue
					}
					if cc.IsInvoke() {
						if repoIfaceType(cc.Value.Type()) {
							for _, m := range P.byMethod[cc.Method.Name()] {
								rec(m)
							}
						}
						// a foreign interface method: stores only through its arguments
						for _, a := range cc.Args {
							if pt, ok := a.Type().Underlying().(*types.Pointer); ok {
								markAll(pt.Elem(), 0)
							}
						}
						continue
					}
					sf := cc.StaticCallee()
					if sf == nil {
						if tg, ok := P.fieldFuncTargets(cc.Value); ok {
							for _, m := range tg {
								rec(m)
							}
						} else if sg, ok := cc.Value.Type().Underlying().(*types.Signature); ok {
							for _, m := range P.bySig[sigKey(sg)] {
								rec(m)
							}
						} else {
							out.all = true
						}
						continue
					}
					if P.isRepoFunc(sf) {
						rec(sf)
						continue
					}
					for _, a := range cc.Args {
						at := a.Type()
						if mi, ok := a.(*ssa.MakeInterface); ok {
							at = mi.X.Type()
						}
						if pt, ok := at.Underlying().(*types.Pointer); ok {
							markAll(pt.Elem(), 0)
						}
					}
				}
			}
		}
	}
	rec(fn)
	P.immutMu.Lock()
	P.storeSets[fn] = out
	P.immutMu.Unlock()
	return out
}

// stableFieldsFor: fields of n that a call to callee (nil: unknown callee) cannot change in objects that existed before.
func (tr *Tr) stableFieldsFor(n *types.Named, callee *ssa.Function) []int {
	im := tr.P.immutableFields(n)
	if callee == nil {
		return im
	}
	ss := tr.P.mayStoreFields(callee)
	if ss.all {
		return im
	}
	st := n.Underlying().(*types.Struct)
	isIm := map[int]bool{}
	for _, i := range im {
		isIm[i] = true
	}
	var out []int
	for i := 0; i < st.NumFields(); i++ {
		if isIm[i] || (!ss.fields[fieldKey(n, i)] && !tr.P.fieldAddrEscapes(n, i)) {
			out = append(out, i)
		}
	}
	return out
}

// fieldAddrEscapes: is the address of this field (or of part of it) ever taken for anything but loads and stores?
func (P *Program) fieldAddrEscapes(n *types.Named, idx int) bool {
	P.immutMu.Lock()
	defer P.immutMu.Unlock()
	if P.fieldEsc == nil {
		P.fieldEsc = map[string]bool{}
		var ok func(v ssa.Value, depth int) bool
		ok = func(v ssa.Value, depth int) bool {
			if depth > 8 {
				return false
			}
			refs := v.Referrers()
			if refs == nil {
				return true
			}
			for _, r := range *refs {
				switch x := r.(type) {
				case *ssa.DebugRef:
				case *ssa.UnOp:
					if x.Op != token.MUL {
						return false
					}
				case *ssa.Store:
					if x.Val == v {
						return false
					}
				case *ssa.FieldAddr:
					if !ok(x, depth+1) {
						return false
					}
				case *ssa.IndexAddr:
					if !ok(x, depth+1) {
						return false
					}
				default:
					return false
				}
			}
			return true
		}
		for fn := range P.allRepoFuncs() {
			for _, b := range fn.Blocks {
				for _, in := range b.Instrs {
					fa, isFA := in.(*ssa.FieldAddr)
					if !isFA {
						continue
					}
					pt, isP := fa.X.Type().Underlying().(*types.Pointer)
					if !isP {
						continue
					}
					nn, _ := namedStruct(pt.Elem())
					if nn == nil {
						continue
					}
					if !ok(fa, 0) {
						P.fieldEsc[fieldKey(nn, fa.Field)] = true
					}
				}
			}
		}
	}
	return P.fieldEsc[fieldKey(n, idx)]
}
