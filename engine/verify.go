package main

import (
	"fmt"
	"go/ast"
	"go/types"
	"sort"
	"strings"
	"time"

	"golang.org/x/tools/go/ssa"
)

type FnResult struct {
	Fn        *ssa.Function
	Name      string
	Contract  *Contract
	Obls      []*Obligation
	Notes     []string
	Trusted   []string
	SpecErrs  []string
	Grade     string
	GenTime   float64
	SolveTime float64
	tr        *Tr
	Panic     string
	Vacuity   []string
	Dropped   []string // auto invariants dropped by the Houdini loop
	Params    map[string]EVal
	Probes    []*Obligation
}

func (tr *Tr) heapClosure(st *State, ls []leaf, v Val) {
	f := tr.f
	a := tr.get(st, "alloc")
	for i, l := range ls {
		switch l.kind {
		case "ptr.reg", "sl.reg", "if.reg":
			key := v[i].id*31 + a.id*17 + 5
			if tr.invCache[key] {
				continue
			}
			tr.invCache[key] = true
			tr.assume(f.ULt(v[i], a), "stored/parameter pointers refer to regions allocated earlier")
		}
	}
}

// translate builds the obligations of fn under its contract.
func translate(P *Program, fn *ssa.Function, ct *Contract, disabled map[string]bool) (res *FnResult) {
	start := time.Now()
	tr := NewTr(P, fn, ct)
	tr.disabledAuto = disabled
	res = &FnResult{Fn: fn, Name: funcDisplay(fn), Contract: ct, tr: tr}
	defer func() {
		if r := recover(); r != nil {
			if s, ok := r.(string); ok {
				res.Panic = s
			} else if e, ok := r.(error); ok {
				res.Panic = e.Error()
			} else {
				res.Panic = fmt.Sprint(r)
			}
			if ee, ok := r.(evalErr); ok {
				res.Panic = ee.msg
			}
			res.Panic += "\n" + stackTrace()
		}
		res.GenTime = time.Since(start).Seconds()
	}()
	if ct != nil && ct.NoNil {
		tr.nilObl = false
	}
	f := tr.f
	entry := &State{C: map[string]*Term{}}
	tr.entry = entry
	ea := tr.get(entry, "alloc")
	tr.assume(f.And(f.ULe(f.BVu(64, 0x2000000), ea), f.ULt(ea, f.BVu(64, 1<<61))), "allocation counter range at entry")
	tr.assume(f.And(f.ILe(f.IntC(0), tr.get(entry, "ev.len")), f.ILe(tr.get(entry, "ev.len"), f.IntC(1<<59))), "event log length is non-negative (and below 2^59)")
	tr.assume(f.ULt(tr.get(entry, "epoch"), f.BVu(64, 1<<62)), "sync epoch below 2^62")
	tr.declLocks()

	// parameters
	var args []Val
	params := map[string]EVal{}
	for i, p := range fn.Params {
		v := tr.freshVal(p.Type(), "p_"+p.Name())
		tr.heapClosure(entry, shape(p.Type()), v)
		for li, l := range shape(p.Type()) {
			switch l.kind {
			case "ptr.reg", "sl.reg", "if.reg":
				tr.regionRank[v[li]] = 0
			}
		}
		if i == 0 && fn.Signature.Recv() != nil && isPtr(p.Type()) {
			tr.assume(f.Neq(v[0], f.BVi(64, 0)), "method receiver is non-nil")
			tr.trust("method receivers are non-nil")
		}
		args = append(args, v)
		params[p.Name()] = EVal{V: v, T: p.Type()}
	}
	var bind []Val
	for _, fv := range fn.FreeVars {
		v := tr.freshVal(fv.Type(), "fv_"+fv.Name())
		tr.heapClosure(entry, shape(fv.Type()), v)
		if isPtr(fv.Type()) {
			tr.assume(f.Neq(v[0], f.BVi(64, 0)), "captured variable address is non-nil")
		}
		bind = append(bind, v)
		if pt, ok := fv.Type().Underlying().(*types.Pointer); ok {
			_ = pt
		}
	}
	res.Params = params

	mkEnv := func(st, old *State) *Env {
		env := &Env{tr: tr, pkg: fn.Pkg.Pkg, vars: map[string]EVal{}, macros: map[string]ast.Expr{}, st: st, old: old}
		for k, v := range params {
			env.vars[k] = v
		}
		if ct != nil {
			for _, l := range ct.Lets {
				env.macros[l.Label] = l.Expr
			}
		}
		env.allocAtEntry = ea
		return env
	}
	// captured variables are visible in closure contracts by name (value = load through the captured pointer)
	bindFV := func(env *Env) {
		for i, fv := range fn.FreeVars {
			if pt, ok := fv.Type().Underlying().(*types.Pointer); ok {
				ls := shape(pt.Elem())
				env.vars[fv.Name()] = EVal{V: tr.loadLeaves(env.curState(), ls, bind[i][0], bind[i][1]), T: pt.Elem()}
			} else {
				env.vars[fv.Name()] = EVal{V: bind[i], T: fv.Type()}
			}
		}
	}
	if ct != nil {
		env := mkEnv(entry, nil)
		bindFV(env)
		for _, r := range ct.Requires {
			t, err := env.EvalBool(r.Expr)
			if err != nil {
				tr.specError(r, err)
				continue
			}
			tr.assume(t, "requires: "+r.Src)
		}
	}
	nReq := len(tr.assumes)
	// case splits declared by the contract: each obligation may be discharged case by case
	if ct != nil && len(ct.Splits) > 0 {
		env := mkEnv(entry, nil)
		bindFV(env)
		cases := [][]*Term{{}}
		var cover []*Term
		for _, sp := range ct.Splits {
			ev, err := env.Eval(sp.Expr.Expr)
			if err != nil {
				tr.specError(sp.Expr, err)
				continue
			}
			var eqs []*Term
			for _, vc := range sp.Values {
				vv, err := env.Eval(vc.Expr)
				if err != nil {
					tr.specError(vc, err)
					continue
				}
				a, b := env.unify(ev, vv)
				a, b = env.defaultType(a), env.defaultType(b)
				if len(a.V) != 1 || len(b.V) != 1 || a.V[0].S != b.V[0].S {
					tr.specError(vc, fmt.Errorf("split value has a different type"))
					continue
				}
				eqs = append(eqs, f.Eq(a.V[0], b.V[0]))
			}
			if len(eqs) == 0 {
				continue
			}
			if sp.Else {
				eqs = append(eqs, f.Not(f.Or(eqs...)))
			}
			cover = append(cover, f.Or(eqs...))
			var next [][]*Term
			for _, c := range cases {
				for _, e := range eqs {
					if len(next) >= 64 {
						break
					}
					nc := append(append([]*Term{}, c...), e)
					next = append(next, nc)
				}
			}
			cases = next
		}
		if len(cover) > 0 {
			top := &Frame{fn: fn, prefix: "", contract: ct, reach: map[*ssa.BasicBlock]*Term{}, callOrd: map[string]int{}}
			tr.frames = append(tr.frames, top)
			tr.obligeAt("split-cover", "", fn.Pos(), f.True(), f.And(cover...), "the declared case split covers every state allowed by the precondition")
			tr.frames = tr.frames[:len(tr.frames)-1]
			tr.splitCases = cases
		}
	}

	// run the body
	tr.framesInit(params)
	vals, exit, ret := tr.runTop(fn, args, bind, entry, ct, params)

	// postconditions
	if ct != nil {
		top := &Frame{fn: fn, prefix: "", contract: ct, reach: map[*ssa.BasicBlock]*Term{}, callOrd: map[string]int{}}
		tr.frames = append(tr.frames, top)
		pos := fn.Pos()
		// one environment per return site: postconditions are checked return by return (error returns usually fold away)
		type retEnv struct {
			cond *Term
			env  *Env
		}
		var renvs []retEnv
		rets := tr.topRets
		if len(rets) == 0 {
			rets = []retInfo{{cond: ret, vals: vals, st: exit}}
		}
		for _, r := range rets {
			env := mkEnv(r.st, entry)
			bindResults(env, fn.Signature, r.vals)
			for i, fv := range fn.FreeVars {
				if pt, ok := fv.Type().Underlying().(*types.Pointer); ok {
					ls := shape(pt.Elem())
					env.vars[fv.Name()] = EVal{V: tr.loadLeaves(r.st, ls, bind[i][0], bind[i][1]), T: pt.Elem()}
				} else {
					env.vars[fv.Name()] = EVal{V: bind[i], T: fv.Type()}
				}
			}
			renvs = append(renvs, retEnv{r.cond, env})
		}
		for i, e := range ct.Ensures {
			var conj []*Term
			failed := false
			for _, re := range renvs {
				t, err := re.env.EvalBool(e.Expr)
				if err != nil {
					tr.specError(e, err)
					failed = true
					break
				}
				conj = append(conj, f.Implies(re.cond, t))
			}
			if failed {
				continue
			}
			lbl := e.Label
			if lbl == "" {
				lbl = fmt.Sprint(i)
			}
			tr.obligeAt("post", lbl, pos, f.True(), f.And(conj...), "postcondition: "+e.Src)
		}
		if ct.ModSet {
			tr.frameObligations(mkEnv(entry, entry), ct, entry, exit, ret, pos)
		}
		tr.frames = tr.frames[:len(tr.frames)-1]
	}
	// vacuity probes (expected sat): the precondition is satisfiable; the exit is reachable under all assumptions
	res.Probes = append(res.Probes, &Obligation{Name: "vacuity#requires", Kind: "vacuity", Fn: tr.top.String(), Reach: f.True(), Cond: f.False(), NAssume: nReq, Desc: "precondition and type invariants are satisfiable"})
	res.Probes = append(res.Probes, &Obligation{Name: "vacuity#exit", Kind: "vacuity", Fn: tr.top.String(), Reach: ret, Cond: f.False(), NAssume: len(tr.assumes), Desc: "the function exit is reachable under every assumed contract and invariant"})
	res.Obls = tr.obls
	for n := range tr.notes {
		res.Notes = append(res.Notes, n)
	}
	sort.Strings(res.Notes)
	for n := range tr.trusted {
		res.Trusted = append(res.Trusted, n)
	}
	sort.Strings(res.Trusted)
	res.SpecErrs = tr.specErrs
	res.Grade = "proved"
	for _, n := range res.Notes {
		if !strings.HasPrefix(n, "inlined ") {
			res.Grade = "abstracted"
		}
	}
	if ct != nil && ct.Trusted {
		res.Grade = "trusted"
	}
	return res
}

func (tr *Tr) framesInit(params map[string]EVal) {}

func (tr *Tr) runTop(fn *ssa.Function, args []Val, bind []Val, entry *State, ct *Contract, params map[string]EVal) (Val, *State, *Term) {
	tr.topParams = params
	return tr.run(fn, args, bind, entry, tr.f.True(), "", ct)
}

// frameObligations: outside the declared modifies set, pre-existing memory is unchanged.
func (tr *Tr) frameObligations(env *Env, ct *Contract, entry, exit *State, reach *Term, pos interface{ IsValid() bool }) {
	f := tr.f
	items, ok := tr.evalModifies(env, ct)
	if !ok {
		return
	}
	r := f.Fresh("frame_reg", S64)
	s := f.Fresh("frame_slot", S64)
	pre := f.ULt(r, tr.get(entry, "alloc"))
	top := tr.fr()
	_ = top
	for _, k := range heapKeys {
		var excl []*Term
		for _, it := range items {
			if it.objsOf != nil {
				for _, kk := range it.keys {
					if kk == k {
						excl = append(excl, f.Eq(tr.rtype(r), f.BVu(64, typeTag(it.objsOf))))
					}
				}
				continue
			}
			if it.reg == nil {
				continue
			}
			has := false
			for _, kk := range it.keys {
				if kk == k {
					has = true
				}
			}
			if !has {
				continue
			}
			if it.whole {
				excl = append(excl, f.Eq(r, it.reg))
			} else {
				excl = append(excl, f.And(f.Eq(r, it.reg), f.ULe(it.lo, s), f.ULt(s, it.hi)))
			}
		}
		h0 := f.Select(f.Select(tr.get(entry, heapComp(k)), r), s)
		h1 := f.Select(f.Select(tr.get(exit, heapComp(k)), r), s)
		if h0 == h1 {
			continue
		}
		cond := f.Implies(f.And(pre, f.Not(f.Or(excl...))), f.Eq(h1, h0))
		tr.obligeAt("frame", k, tr.top.Pos(), reach, cond, "memory outside the modifies clause is unchanged (heap of "+k+"-bit leaves)")
	}
	// event log untouched unless W is listed
	hasW := false
	for _, it := range items {
		if it.events {
			hasW = true
		}
	}
	if !hasW {
		l0, l1 := tr.get(entry, "ev.len"), tr.get(exit, "ev.len")
		if l0 != l1 {
			tr.obligeAt("frame", "W", tr.top.Pos(), reach, f.Eq(l0, l1), "no device event is issued (W not in the modifies clause)")
		}
	}
}
