package main

import (
	"fmt"
	"go/constant"
	"go/token"
	"go/types"
	"hash/fnv"
	"math/big"
	"sort"
	"strings"

	"golang.org/x/tools/go/ssa"
)

type Val []*Term

type Obligation struct {
	Name    string
	Kind    string
	Fn      string // function under contract this belongs to
	Pos     token.Pos
	Desc    string
	Reach   *Term
	Cond    *Term
	NAssume int // assumptions visible: tr.assumes[:NAssume]
	// filled by the solver stage
	Result  string
	Solver  string
	Time    float64
	Model   map[string]string
	SmtSize int
	Output  string
	Inlined bool
	Candidate bool // sat only on the ground-instantiated query
	ModelScript string // the query that was sat (for follow-up get-value queries)
	ModelQuant  bool
}

type Assumption struct {
	T      *Term
	Why    string
	Site   string
	Region *Term // set for "fresh region reads as zero": only useful when the region occurs elsewhere in the query
}

// Tr translates one function under contract (plus inlined callees) into obligations.
type Tr struct {
	f         *TF
	P         *Program
	top       *ssa.Function
	contract  *Contract
	obls      []*Obligation
	assumes   []Assumption
	compSorts map[string]*Sort
	counters  map[string]int
	globals   map[*ssa.Global]int
	frames    []*Frame
	notes     map[string]bool // abstractions used (for grading)
	trusted   map[string]bool // trusted contracts / models used
	invCache  map[int]bool
	entry     *State
	inlineDepth int
	curPrefix string
	maxLen    *Term
	nilObl    bool
	unrollK   map[*ssa.BasicBlock]int
	nonNil    map[int]bool
	nilSeen   map[[2]int]bool
	disabledAuto map[string]bool
	localIdx  map[*ssa.Function]map[string][]localRef
	specErrs  []string
	topParams map[string]EVal
	splitCases [][]*Term
	consts    map[*Term][]constFact
	topRets   []retInfo
	regionRank map[*Term]int // 0: parameter region (allocated before entry); n>0: n-th allocation of this translation
	allocSeq  int
	frames2   map[*Term]frameInfo
	knownRtype map[*Term]*Term
	pathRtype map[*Term]*Term
	relStructs []*types.Named
	relStructsAll []*types.Named
	streamUse int
	stableCallee *ssa.Function
	havocCallee *ssa.Function
	privateRegs []*Term
	privateMaps []privMap
	pureCache   map[string]Val
	typeFactCache map[string]bool
	curBind   []Val // bindings of the closure currently being called by contract
}

// frameInfo: a havocked heap that agrees with `old` on every region allocated before (rank <= maxRank).
type frameInfo struct {
	old     *Term
	maxRank int
	typed   map[string]bool // tags (decimal) of the struct types whose objects may have changed
	newToo  bool            // objects allocated after maxRank may have changed as well
}

type retInfo struct {
	cond *Term
	vals Val
	st   *State
}

type deferred struct {
	guard *Term
	call  *ssa.CallCommon
	site  ssa.Instruction
}

type Frame struct {
	fn       *ssa.Function
	env      map[ssa.Value]Val
	reach    map[*ssa.BasicBlock]*Term
	edge     map[[2]int]*Term
	exit     map[*ssa.BasicBlock]*State
	back     map[[2]int]bool
	order    []*ssa.BasicBlock
	rets     []retInfo
	st       *State // current state while executing a block
	cur      *ssa.BasicBlock
	contract *Contract
	prefix   string
	closures map[ssa.Value]*closureInfo
	defers   []deferred
	loops    map[*ssa.BasicBlock]*loopInfo
	entrySt  *State
	params   map[string]EVal
	callOrd  map[string]int
	overrides map[ssa.Value]Val
	curIdx   int
}

type closureInfo struct {
	fn   *ssa.Function
	bind []Val
}

type loopInfo struct {
	header *ssa.BasicBlock
	blocks map[*ssa.BasicBlock]bool
	ord    int
	spec   *LoopSpec
	phis   []*ssa.Phi
	phiVal map[*ssa.Phi]Val // fresh values inside the loop
	entrySt *State
	havocSt *State
	variant EVal
	auto    []*autoInv
	entryVals map[ssa.Value]Val
	typeFramed map[string]bool // struct types whose objects the loop may write through pointers obtained inside the loop
}

func NewTr(P *Program, fn *ssa.Function, c *Contract) *Tr {
	tr := &Tr{f: NewTF(), P: P, top: fn, contract: c, compSorts: map[string]*Sort{}, counters: map[string]int{},
		globals: map[*ssa.Global]int{}, notes: map[string]bool{}, trusted: map[string]bool{}, invCache: map[int]bool{}, nilObl: true, nonNil: map[int]bool{}, nilSeen: map[[2]int]bool{}}
	tr.initComps()
	tr.maxLen = tr.f.BVu(64, 1<<48)
	tr.regionRank = map[*Term]int{}
	tr.typeFactCache = map[string]bool{}
	tr.frames2 = map[*Term]frameInfo{}
	tr.f.Frame = func(arr, idx *Term) *Term {
		fi, ok := tr.frames2[arr]
		if !ok {
			return nil
		}
		if fi.typed != nil {
			// type-framed havoc: regions known to be allocated with another type are unchanged
			tag, ok := tr.knownRtype[idx]
			if !ok || fi.typed[tag.Val.String()] {
				return nil
			}
			if fi.newToo {
				if r, ok := tr.regionRank[idx]; !ok || r > fi.maxRank {
					return nil
				}
			}
			return fi.old
		}
		if r, ok := tr.regionRank[idx]; ok && r <= fi.maxRank {
			return fi.old
		}
		return nil
	}
	tr.f.DistinctIdx = func(a, b *Term) bool {
		ta, oka := tr.pathRtype[a]
		tb, okb := tr.pathRtype[b]
		return oka && okb && ta != tb
	}
	tr.f.Distinct = func(a, b *Term) bool {
		ra, oka := tr.regionRank[a]
		rb, okb := tr.regionRank[b]
		return oka && okb && ra != rb
	}
	return tr
}

func (tr *Tr) note(s string)  { tr.notes[s] = true }
func (tr *Tr) trust(s string) { tr.trusted[s] = true }

func (tr *Tr) fr() *Frame { return tr.frames[len(tr.frames)-1] }

func (tr *Tr) assume(t *Term, why string) {
	if t.IsTrue() {
		return
	}
	tr.assumes = append(tr.assumes, Assumption{T: t, Why: why})
	tr.recordConsts(t, tr.f.True())
}

type constFact struct {
	c     *Term
	guard *Term
}

// recordConsts remembers facts `x == constant` (possibly under a guard) so that lengths promised by callee
// postconditions can be used as constants by copy/append expansion.
func (tr *Tr) recordConsts(t *Term, guard *Term) {
	switch t.Op {
	case "and":
		for _, a := range t.Args {
			tr.recordConsts(a, guard)
		}
	case "or":
		// (or (not g1) (not g2) body): guard g1 && g2
		var body *Term
		gs := []*Term{guard}
		for _, a := range t.Args {
			if a.Op == "not" {
				gs = append(gs, a.Args[0])
			} else if body == nil {
				body = a
			} else {
				return
			}
		}
		if body != nil {
			tr.recordConsts(body, tr.f.And(gs...))
		}
	case "=":
		a, b := t.Args[0], t.Args[1]
		if a.Op == "bv" && b.Op != "bv" {
			a, b = b, a
		}
		if b.Op == "bv" && a.Op == "app" && a.Name == "rtype" {
			if guard.IsTrue() {
				if tr.knownRtype == nil {
					tr.knownRtype = map[*Term]*Term{}
				}
				tr.knownRtype[a.Args[0]] = b
			}
			// facts that hold under a path condition: usable for skipping stores made on that path
			if tr.pathRtype == nil {
				tr.pathRtype = map[*Term]*Term{}
			}
			if _, dup := tr.pathRtype[a.Args[0]]; !dup {
				tr.pathRtype[a.Args[0]] = b
			}
		}
		if b.Op == "bv" && a.Op != "bv" {
			if tr.consts == nil {
				tr.consts = map[*Term][]constFact{}
			}
			tr.consts[a] = append(tr.consts[a], constFact{b, guard})
		}
	}
}

// constOf returns a constant known to equal t under the current reach condition.
func (tr *Tr) constOf(t *Term) *Term {
	if t.Op == "bv" {
		return t
	}
	if len(tr.frames) == 0 {
		return nil
	}
	fr := tr.fr()
	var reach *Term
	if fr.cur != nil {
		reach = fr.reach[fr.cur]
	}
	for _, cf := range tr.consts[t] {
		if cf.guard.IsTrue() || cf.guard == reach {
			return cf.c
		}
		if reach != nil && reach.Op == "and" {
			need := []*Term{cf.guard}
			if cf.guard.Op == "and" {
				need = cf.guard.Args
			}
			ok := true
			for _, n := range need {
				found := false
				for _, r := range reach.Args {
					if r == n {
						found = true
					}
				}
				if !found && !n.IsTrue() {
					ok = false
				}
			}
			if ok {
				return cf.c
			}
		}
	}
	return nil
}

// assumeHere adds an assumption guarded by the current reach condition.
func (tr *Tr) assumeHere(t *Term, why string) {
	fr := tr.fr()
	r := tr.f.True()
	if fr.cur != nil {
		r = fr.reach[fr.cur]
	}
	tr.assume(tr.f.Implies(r, t), why)
}

func (tr *Tr) oblige(kind string, pos token.Pos, cond *Term, desc string) {
	tr.obligeNamed(kind, "", pos, cond, desc)
}

func (tr *Tr) obligeNamed(kind, label string, pos token.Pos, cond *Term, desc string) {
	fr := tr.fr()
	r := tr.f.True()
	if fr.cur != nil {
		r = fr.reach[fr.cur]
	}
	tr.obligeAt(kind, label, pos, r, cond, desc)
}

func (tr *Tr) obligeAt(kind, label string, pos token.Pos, reach, cond *Term, desc string) {
	fr := tr.fr()
	if tr.contract != nil && tr.contract.NoSafety {
		switch kind {
		case "nil", "bounds", "div", "alloc", "shift", "typeassert", "panic":
			tr.note("nosafety: run-time panics of this function are outside its contract (partial correctness)")
			return
		}
	}
	base := fr.prefix + kind
	var name string
	if label != "" {
		name = base + "#" + label
		tr.counters[name]++
		if tr.counters[name] > 1 {
			name = fmt.Sprintf("%s.%d", name, tr.counters[name])
		}
	} else {
		tr.counters[base]++
		name = fmt.Sprintf("%s#%d", base, tr.counters[base])
	}
	o := &Obligation{Name: name, Kind: kind, Fn: tr.top.String(), Pos: pos, Desc: desc, Reach: reach, Cond: cond, NAssume: len(tr.assumes), Inlined: len(tr.frames) > 1}
	if cond.IsTrue() || reach.IsFalse() {
		// decided by the term simplifier (constant folding / store-select resolution) or unreachable
		o.Result = "unsat"
		o.Solver = "simplifier"
		if kind == "nil" {
			return // trivial nil checks carry no information
		}
		tr.obls = append(tr.obls, o)
		return
	}
	tr.obls = append(tr.obls, o)
	tr.assume(tr.f.Implies(reach, cond), "checked:"+name)
}

// ---------- values

func (tr *Tr) freshVal(ty types.Type, hint string) Val {
	ls := shape(ty)
	out := make(Val, len(ls))
	for i, l := range ls {
		out[i] = tr.f.Fresh(hint, l.S)
	}
	tr.assumeInv(ls, out)
	return out
}

// type invariants of values (Go runtime guarantees)
func (tr *Tr) assumeInv(ls []leaf, v Val) {
	f := tr.f
	for i, l := range ls {
		switch l.kind {
		case "sl.reg":
			key := v[i].id*7 + v[i+2].id*13 + v[i+3].id
			if tr.invCache[key] {
				continue
			}
			tr.invCache[key] = true
			ln, cp := v[i+2], v[i+3]
			z := f.BVi(64, 0)
			tr.assume(f.And(f.SLe(z, ln), f.SLe(ln, cp), f.SLe(cp, tr.maxLen), f.ULe(v[i+1], f.BVu(64, 1<<56)),
				f.Implies(f.Eq(v[i], z), f.Eq(cp, z))), "slice header invariant")
		case "str.id":
			key := v[i].id*7 + v[i+1].id*13 + 1
			if tr.invCache[key] {
				continue
			}
			tr.invCache[key] = true
			z := f.BVi(64, 0)
			tr.assume(f.And(f.SLe(z, v[i+1]), f.SLe(v[i+1], tr.maxLen), f.Eq(f.Eq(v[i], z), f.Eq(v[i+1], z))), "string header invariant")
		case "if.t":
			key := v[i].id*7 + v[i+1].id*13 + 2
			if tr.invCache[key] {
				continue
			}
			tr.invCache[key] = true
			z := f.BVi(64, 0)
			tr.assume(f.Implies(f.Eq(v[i], z), f.And(f.Eq(v[i+1], z), f.Eq(v[i+2], z))), "nil interface invariant")
		case "ptr.reg":
			// pointers into allocated memory have small offsets
			key := v[i].id*7 + v[i+1].id*13 + 3
			if tr.invCache[key] {
				continue
			}
			tr.invCache[key] = true
			tr.assume(f.ULe(v[i+1], f.BVu(64, 1<<56)), "pointer offset invariant")
		}
	}
}

func strHash(s string) uint64 {
	h := fnv.New64a()
	h.Write([]byte(s))
	return h.Sum64()
}

func typeID(t types.Type) uint64 {
	return strHash(types.TypeString(t, nil))>>1 | 1<<62 // non-zero, stable
}

func (tr *Tr) constVal(c *ssa.Const) Val {
	f := tr.f
	ls := shape(c.Type())
	if c.Value == nil {
		return tr.zeroVal(ls)
	}
	if len(ls) == 1 && ls[0].kind == "int" {
		w := ls[0].S.W
		var bi *big.Int
		switch c.Value.Kind() {
		case constant.Int:
			bi, _ = new(big.Int).SetString(c.Value.ExactString(), 10)
		case constant.Float:
			fl, _ := constant.Float64Val(c.Value)
			bi = big.NewInt(int64(fl))
		}
		if bi == nil {
			bi = big.NewInt(0)
		}
		return Val{f.BV(w, bi)}
	}
	if len(ls) == 1 && ls[0].kind == "bool" {
		return Val{f.Bool(constant.BoolVal(c.Value))}
	}
	if len(ls) == 2 && ls[0].kind == "str.id" {
		return tr.strConst(constant.StringVal(c.Value))
	}
	if len(ls) == 1 && ls[0].kind == "opaque" {
		// float constants: stable id by textual value
		return Val{f.BVu(64, strHash(c.Value.ExactString()))}
	}
	return tr.freshVal(c.Type(), "const")
}

func (tr *Tr) strConst(s string) Val {
	if s == "" {
		return Val{tr.f.BVi(64, 0), tr.f.BVi(64, 0)}
	}
	return Val{tr.f.BVu(64, strHash(s)|1), tr.f.BVi(64, int64(len(s)))}
}

func (tr *Tr) globalRegion(g *ssa.Global) *Term {
	id, ok := tr.globals[g]
	if !ok {
		id = len(tr.globals) + 1
		tr.globals[g] = id
	}
	_ = id
	// stable across functions: derived from the qualified name
	return tr.f.BVu(64, 0x100000+(strHash(g.String())%0xF00000))
}

func (tr *Tr) val(v ssa.Value) Val {
	fr := tr.fr()
	if fr.overrides != nil {
		if r, ok := fr.overrides[v]; ok {
			return r
		}
	}
	if r, ok := fr.env[v]; ok {
		return r
	}
	switch x := v.(type) {
	case *ssa.Const:
		return tr.constVal(x)
	case *ssa.Global:
		r := Val{tr.globalRegion(x), tr.f.BVi(64, 0)}
		fr.env[v] = r
		return r
	case *ssa.Function:
		r := Val{tr.f.BVu(64, strHash(x.String())|1)}
		fr.env[v] = r
		return r
	case *ssa.Builtin:
		return Val{tr.f.BVu(64, strHash(x.Name())|1)}
	}
	// value not yet defined (use before def through a cut back edge): havoc
	r := tr.freshVal(v.Type(), "undef_"+v.Name())
	fr.env[v] = r
	return r
}

func (tr *Tr) idx64(v ssa.Value) (*Term, bool) {
	_, sg, ok := intLeaf(v.Type())
	if !ok {
		return tr.f.Fresh("idx", S64), true
	}
	return tr.f.Ext(tr.val(v)[0], 64, sg), sg
}

// ---------- CFG preparation

func (fr *Frame) prepCFG() {
	fr.back = map[[2]int]bool{}
	color := map[int]int{}
	var post []*ssa.BasicBlock
	var dfs func(b *ssa.BasicBlock)
	dfs = func(b *ssa.BasicBlock) {
		color[b.Index] = 1
		for _, s := range b.Succs {
			switch color[s.Index] {
			case 0:
				dfs(s)
			case 1:
				fr.back[[2]int{b.Index, s.Index}] = true
			}
		}
		color[b.Index] = 2
		post = append(post, b)
	}
	dfs(fr.fn.Blocks[0])
	for i := len(post) - 1; i >= 0; i-- {
		fr.order = append(fr.order, post[i])
	}
	// natural loops
	fr.loops = map[*ssa.BasicBlock]*loopInfo{}
	var headers []*ssa.BasicBlock
	for e := range fr.back {
		h := fr.fn.Blocks[e[1]]
		li := fr.loops[h]
		if li == nil {
			li = &loopInfo{header: h, blocks: map[*ssa.BasicBlock]bool{h: true}}
			fr.loops[h] = li
			headers = append(headers, h)
		}
		// blocks that reach the latch without passing through the header
		var stack []*ssa.BasicBlock
		l := fr.fn.Blocks[e[0]]
		if !li.blocks[l] {
			li.blocks[l] = true
			stack = append(stack, l)
		}
		for len(stack) > 0 {
			b := stack[len(stack)-1]
			stack = stack[:len(stack)-1]
			for _, p := range b.Preds {
				if !li.blocks[p] {
					li.blocks[p] = true
					stack = append(stack, p)
				}
			}
		}
	}
	// loop ordinals in source order of the header position (falls back to block index)
	sort.Slice(headers, func(i, j int) bool {
		pi, pj := blockPos(headers[i]), blockPos(headers[j])
		if pi != pj {
			return pi < pj
		}
		return headers[i].Index < headers[j].Index
	})
	for i, h := range headers {
		fr.loops[h].ord = i
		for _, in := range h.Instrs {
			if p, ok := in.(*ssa.Phi); ok {
				fr.loops[h].phis = append(fr.loops[h].phis, p)
			}
		}
	}
}

func blockPos(b *ssa.BasicBlock) token.Pos {
	// position of the loop: smallest valid position among instructions of the header, or of the body
	var best token.Pos
	for _, in := range b.Instrs {
		if p := in.Pos(); p.IsValid() && (best == 0 || p < best) {
			best = p
		}
	}
	if best == 0 {
		for _, s := range b.Succs {
			for _, in := range s.Instrs {
				if p := in.Pos(); p.IsValid() && (best == 0 || p < best) {
					best = p
				}
			}
		}
	}
	return best
}

// ---------- running a function body

// run executes fn's body from state st under reach; returns merged results.
func (tr *Tr) run(fn *ssa.Function, args []Val, bind []Val, st *State, reach *Term, prefix string, c *Contract) (Val, *State, *Term) {
	fr := &Frame{fn: fn, env: map[ssa.Value]Val{}, reach: map[*ssa.BasicBlock]*Term{}, edge: map[[2]int]*Term{},
		exit: map[*ssa.BasicBlock]*State{}, prefix: prefix, contract: c, closures: map[ssa.Value]*closureInfo{}, callOrd: map[string]int{}}
	fr.prepCFG()
	fr.params = map[string]EVal{}
	for i, p := range fn.Params {
		fr.env[p] = args[i]
		fr.params[p.Name()] = EVal{V: args[i], T: p.Type()}
	}
	for i, fv := range fn.FreeVars {
		if i < len(bind) {
			fr.env[fv] = bind[i]
		} else {
			fr.env[fv] = tr.freshVal(fv.Type(), "fv_"+fv.Name())
		}
	}
	fr.entrySt = st
	tr.frames = append(tr.frames, fr)
	defer func() { tr.frames = tr.frames[:len(tr.frames)-1] }()

	for bi, b := range fr.order {
		fr.cur = b
		if bi == 0 {
			fr.reach[b] = reach
			fr.st = st.clone()
		} else {
			var es []*Term
			var sts []*State
			for _, p := range b.Preds {
				k := [2]int{p.Index, b.Index}
				if fr.back[k] {
					continue
				}
				if e, ok := fr.edge[k]; ok && !e.IsFalse() {
					dup := false
					for _, o := range es {
						if o == e {
							dup = true
						}
					}
					if dup {
						continue
					}
					es = append(es, e)
					sts = append(sts, fr.exit[p])
				}
			}
			if len(es) == 0 {
				fr.reach[b] = tr.f.False()
				fr.st = st.clone()
				// still translate (values may be referenced) but nothing is obliged
			} else {
				fr.reach[b] = tr.f.Or(es...)
				fr.st = tr.merge(sts, es)
			}
		}
		if li := fr.loops[b]; li != nil {
			tr.loopHeader(fr, li)
		}
		for ii, in := range b.Instrs {
			fr.curIdx = ii
			if fr.reach[b].IsFalse() {
				if v, ok := in.(ssa.Value); ok {
					fr.env[v] = tr.freshVal(v.Type(), "dead")
				}
				continue
			}
			tr.instr(fr, in)
		}
		fr.exit[b] = fr.st
		r := fr.reach[b]
		if len(b.Instrs) > 0 {
			switch term := b.Instrs[len(b.Instrs)-1].(type) {
			case *ssa.If:
				c := tr.val(term.Cond)[0]
				fr.edge[[2]int{b.Index, b.Succs[0].Index}] = tr.f.And(r, c)
				fr.edge[[2]int{b.Index, b.Succs[1].Index}] = tr.f.And(r, tr.f.Not(c))
			case *ssa.Jump:
				fr.edge[[2]int{b.Index, b.Succs[0].Index}] = r
			}
		}
		// back edges: invariant preservation
		for _, s := range b.Succs {
			k := [2]int{b.Index, s.Index}
			if fr.back[k] && !r.IsFalse() {
				tr.loopBackEdge(fr, fr.loops[s], b, fr.edge[k])
			}
		}
		// loop exits: `exit` clauses of the loop being left
		for _, s := range b.Succs {
			k := [2]int{b.Index, s.Index}
			if r.IsFalse() || fr.back[k] {
				continue
			}
			for _, li := range fr.loops {
				if li.spec == nil || len(li.spec.Exits) == 0 || !li.blocks[b] || li.blocks[s] {
					continue
				}
				// `exit` clauses describe leaving the loop to continue after it; a jump straight to a return statement
				// is covered by `at return` assertions instead
				if n := len(s.Instrs); n > 0 {
					if _, isRet := s.Instrs[n-1].(*ssa.Return); isRet {
						continue
					}
				}
				for i, ex := range li.spec.Exits {
					env := tr.envFor(fr, li, fr.exit[b])
					t, err := env.EvalBool(ex.Expr)
					if err != nil {
						tr.specError(ex, err)
						continue
					}
					lbl := ex.Label
					if lbl == "" {
						lbl = fmt.Sprint(i)
					}
					pos := token.NoPos
					if len(b.Instrs) > 0 {
						pos = b.Instrs[len(b.Instrs)-1].Pos()
					}
					if !pos.IsValid() {
						pos = fr.fn.Pos()
					}
					tr.obligeAt("exit", fmt.Sprintf("L%d.%s", li.ord, lbl), pos, fr.edge[k], t, "on leaving the loop: "+ex.Src)
				}
			}
		}
	}
	fr.cur = nil
	if len(tr.frames) == 1 {
		tr.topRets = fr.rets
	}
	// merge returns
	if len(fr.rets) == 0 {
		return tr.freshVal(fn.Signature.Results(), "noret"), st.clone(), tr.f.False()
	}
	var conds []*Term
	var sts []*State
	for _, r := range fr.rets {
		conds = append(conds, r.cond)
		sts = append(sts, r.st)
	}
	out := tr.merge(sts, conds)
	n := len(shape(fn.Signature.Results()))
	res := make(Val, n)
	for k := 0; k < n; k++ {
		t := fr.rets[len(fr.rets)-1].vals[k]
		for i := len(fr.rets) - 2; i >= 0; i-- {
			t = tr.f.Ite(fr.rets[i].cond, fr.rets[i].vals[k], t)
		}
		res[k] = t
	}
	return res, out, tr.f.Or(conds...)
}

// ---------- instructions

func (tr *Tr) instr(fr *Frame, in ssa.Instruction) {
	f := tr.f
	switch x := in.(type) {
	case *ssa.DebugRef:
	case *ssa.BinOp:
		fr.env[x] = tr.binop(x)
	case *ssa.UnOp:
		switch x.Op {
		case token.MUL:
			p := tr.val(x.X)
			if g, ok := x.X.(*ssa.Global); ok {
				if v, ok := tr.immutableGlobal(g); ok {
					fr.env[x] = v
					return
				}
			}
			tr.nilCheck(x.Pos(), p[0], "nil pointer dereference (load)")
			ls := shape(x.Type())
			v := tr.loadLeaves(fr.st, ls, p[0], p[1])
			tr.assumeInv(ls, v)
			tr.heapClosure(fr.st, ls, v)
			fr.env[x] = v
		case token.NOT:
			fr.env[x] = Val{f.Not(tr.val(x.X)[0])}
		case token.SUB:
			if _, _, ok := intLeaf(x.Type()); ok {
				fr.env[x] = Val{f.Neg(tr.val(x.X)[0])}
			} else {
				fr.env[x] = tr.freshVal(x.Type(), "fneg")
			}
		case token.XOR:
			fr.env[x] = Val{f.BNot(tr.val(x.X)[0])}
		case token.ARROW:
			tr.note("channel receive")
			fr.env[x] = tr.freshVal(x.Type(), "recv")
		default:
			fr.env[x] = tr.freshVal(x.Type(), "unop")
		}
	case *ssa.Convert:
		fr.env[x] = tr.convert(fr, x)
	case *ssa.ChangeType:
		fr.env[x] = tr.val(x.X)
	case *ssa.ChangeInterface:
		fr.env[x] = tr.val(x.X)
		if launders(x.X.Type(), x.Type()) {
			tr.havocLog(fr.st)
			tr.note("device writer converted to " + x.Type().String() + ": writes through it are not tracked (event log havocked)")
		}
	case *ssa.MakeInterface:
		fr.env[x] = tr.makeInterface(fr, x.X.Type(), tr.val(x.X))
		if launders(x.X.Type(), x.Type()) {
			tr.havocLog(fr.st)
			tr.note("device writer converted to " + x.Type().String() + ": writes through it are not tracked (event log havocked)")
		}
	case *ssa.Alloc:
		reg := tr.allocTyped(fr.st, x.Type().Underlying().(*types.Pointer).Elem())
		fr.env[x] = Val{reg, f.BVi(64, 0)}
		if privateAlloc(x) {
			// a local variable cell that only this function (and closures it defers or calls itself) can reach:
			// unknown callees cannot change it
			tr.privateRegs = append(tr.privateRegs, reg)
		}
	case *ssa.Store:
		p := tr.val(x.Addr)
		tr.nilCheck(x.Pos(), p[0], "nil pointer dereference (store)")
		tr.lockCheckStore(fr, x)
		tr.typeFrameCheck(fr, x.Pos(), rootOf(x.Addr), p[0])
		tr.storeLeaves(fr.st, shape(x.Val.Type()), p[0], p[1], tr.val(x.Val))
		if g, ok := x.Addr.(*ssa.Global); ok && isPkgInit(fr.fn) {
			if gi := tr.P.globalInv(g); gi != nil {
				tr.establishGlobalInv(fr, x, g, tr.val(x.Val), gi)
			}
		}
	case *ssa.FieldAddr:
		p := tr.val(x.X)
		st := x.X.Type().Underlying().(*types.Pointer).Elem().Underlying().(*types.Struct)
		tr.nilCheck(x.Pos(), p[0], "nil pointer dereference (field)")
		fr.env[x] = Val{p[0], f.AddC(p[1], int64(fieldOffset(st, x.Field)))}
		tr.pointerTypeFacts(fr, x.X.Type().Underlying().(*types.Pointer).Elem(), p)
	case *ssa.Field:
		v := tr.val(x.X)
		st := x.X.Type().Underlying().(*types.Struct)
		off := fieldOffset(st, x.Field)
		n := nleaves(x.Type())
		if off+n <= len(v) {
			fr.env[x] = v[off : off+n]
		} else {
			fr.env[x] = tr.freshVal(x.Type(), "fld")
		}
	case *ssa.IndexAddr:
		fr.env[x] = tr.indexAddr(fr, x)
	case *ssa.Index:
		fr.env[x] = tr.index(fr, x)
	case *ssa.Lookup:
		fr.env[x] = tr.lookup(fr, x)
	case *ssa.Slice:
		fr.env[x] = tr.sliceOp(fr, x)
	case *ssa.MakeSlice:
		l64, _ := tr.idx64(x.Len)
		c64, _ := tr.idx64(x.Cap)
		n := nleaves(elemType(x.Type()))
		if n < 1 {
			n = 1
		}
		lim := f.BVu(64, (1<<48)/uint64(n))
		tr.oblige("alloc", x.Pos(), f.And(f.SLe(f.BVi(64, 0), l64), f.SLe(l64, c64), f.SLe(c64, lim)), "makeslice: len/cap out of range")
		tr.allocBound(fr, x.Pos(), f.Mul(c64, f.BVi(64, int64(sizeofElem(elemType(x.Type()))))))
		reg := tr.allocTyped(fr.st, x.Type().Underlying())
		fr.env[x] = Val{reg, f.BVi(64, 0), l64, c64}
	case *ssa.MakeMap:
		id := tr.allocRegion(fr.st)
		tr.mapInit(fr.st, x.Type(), id)
		fr.env[x] = Val{id}
		if privateMap(x) && tr.mapDecl(x.Type()) {
			// a map that only this function looks up, updates, ranges over or measures: unknown callees cannot change it
			tr.privateMaps = append(tr.privateMaps, privMap{prefix: mapComp(x.Type(), ""), id: id})
		}
	case *ssa.MakeChan:
		fr.env[x] = Val{tr.allocRegion(fr.st)}
		tr.note("channel")
	case *ssa.MakeClosure:
		fn := x.Fn.(*ssa.Function)
		ci := &closureInfo{fn: fn}
		for _, b := range x.Bindings {
			ci.bind = append(ci.bind, tr.val(b))
		}
		fr.closures[x] = ci
		fr.env[x] = Val{f.BVu(64, strHash(fn.String())|1)}
	case *ssa.Phi:
		fr.env[x] = tr.phi(fr, x)
	case *ssa.Extract:
		tup := tr.val(x.Tuple)
		tt := x.Tuple.Type().(*types.Tuple)
		off := 0
		for i := 0; i < x.Index; i++ {
			off += nleaves(tt.At(i).Type())
		}
		n := nleaves(x.Type())
		if off+n <= len(tup) {
			fr.env[x] = tup[off : off+n]
		} else {
			fr.env[x] = tr.freshVal(x.Type(), "ex")
		}
	case *ssa.TypeAssert:
		fr.env[x] = tr.typeAssert(fr, x)
	case *ssa.Range:
		fr.env[x] = Val{f.Fresh("range", S64)}
		if isMap(x.X.Type()) {
			tr.effect(fr, x, "maporder")
		}
	case *ssa.Next:
		fr.env[x] = tr.next(fr, x)
	case *ssa.Select:
		tr.note("select")
		fr.env[x] = tr.freshVal(x.Type(), "select")
	case *ssa.MapUpdate:
		tr.mapUpdate(fr, x)
	case *ssa.Call:
		tr.call(fr, x, x.Common(), x)
	case *ssa.Defer:
		fr.defers = append(fr.defers, deferred{guard: fr.reach[fr.cur], call: x.Common(), site: x})
	case *ssa.RunDefers:
		for i := len(fr.defers) - 1; i >= 0; i-- {
			d := fr.defers[i]
			tr.callGuarded(fr, d)
		}
	case *ssa.Go:
		tr.note("go statement (goroutine body not modelled)")
		tr.havocAll(fr, "go")
	case *ssa.Send:
		tr.note("channel send")
	case *ssa.Panic:
		tr.oblige("panic", x.Pos(), f.False(), "explicit panic reachable")
	case *ssa.Return:
		var vals Val
		for _, r := range x.Results {
			vals = append(vals, tr.val(r)...)
		}
		if fr.contract != nil && len(fr.contract.AtReturn) > 0 && len(tr.frames) == 1 {
			// entry(e) in a return-site assertion refers to the entry of loop 0 (returns reached before that loop skip such assertions)
			var li0 *loopInfo
			for _, li := range fr.loops {
				if li.ord == 0 && li.entrySt != nil && fr.cur != nil && li.header.Dominates(fr.cur) {
					li0 = li
				}
			}
			env := tr.envFor(fr, li0, fr.st)
			env.zeroLocals = true
			bindResults(env, fr.fn.Signature, vals)
			for i, a := range fr.contract.AtReturn {
				if li0 == nil && strings.Contains(a.Src, "entry(") {
					continue
				}
				t, err := env.EvalBool(a.Expr)
				if err != nil {
					if li0 == nil && strings.Contains(err.Error(), "entry()") {
						continue // a return that is not reached through loop 0
					}
					tr.specError(a, err)
					continue
				}
				lbl := a.Label
				if lbl == "" {
					lbl = fmt.Sprint(i)
				}
				tr.obligeNamed("ret-assert", lbl, x.Pos(), t, "assertion at return: "+a.Src)
			}
		}
		fr.rets = append(fr.rets, retInfo{cond: fr.reach[fr.cur], vals: vals, st: fr.st})
	case *ssa.If, *ssa.Jump:
	case *ssa.SliceToArrayPointer:
		s := tr.val(x.X)
		fr.env[x] = Val{s[0], s[1]}
	default:
		if v, ok := in.(ssa.Value); ok {
			fr.env[v] = tr.freshVal(v.Type(), "abs")
		}
		tr.note(fmt.Sprintf("unmodelled instruction %T", in))
	}
}

func sizeofElem(t types.Type) int {
	if t == nil {
		return 8
	}
	sz := types.SizesFor("gc", "amd64")
	return int(sz.Sizeof(t))
}

func (tr *Tr) nilCheck(pos token.Pos, reg *Term, desc string) {
	if !tr.nilObl {
		return
	}
	if tr.nonNil[reg.id] {
		return
	}
	fr := tr.fr()
	if fr.cur != nil {
		key := [2]int{reg.id, fr.reach[fr.cur].id}
		if tr.nilSeen[key] {
			return
		}
		tr.nilSeen[key] = true
	}
	tr.oblige("nil", pos, tr.f.Neq(reg, tr.f.BVi(64, 0)), desc)
}

func (tr *Tr) binop(in *ssa.BinOp) Val {
	f := tr.f
	x, y := tr.val(in.X), tr.val(in.Y)
	xt := in.X.Type()
	w, sg, isInt := intLeaf(xt)
	switch in.Op {
	case token.EQL, token.NEQ:
		e := tr.eqVals(xt, x, y, in.X, in.Y)
		if in.Op == token.NEQ {
			e = f.Not(e)
		}
		return Val{e}
	}
	if !isInt {
		if isString(in.Type()) && in.Op == token.ADD {
			id := f.App("strcat", S64, x[0], y[0])
			ln := f.Add(x[1], y[1])
			v := Val{id, ln}
			tr.assume(f.Eq(f.Eq(id, f.BVi(64, 0)), f.Eq(ln, f.BVi(64, 0))), "strcat header")
			return v
		}
		if isString(xt) {
			// ordered comparison of strings: uninterpreted
			return Val{f.App("strcmp_"+in.Op.String(), SBool, x[0], y[0])}
		}
		// floats
		if isBool(in.Type()) {
			return Val{f.App("fcmp_"+sanitize(in.Op.String()), SBool, x[0], y[0])}
		}
		return Val{f.App("fop_"+sanitize(in.Op.String()), S64, x[0], y[0])}
	}
	a, b := x[0], y[0]
	switch in.Op {
	case token.ADD:
		return Val{f.Add(a, b)}
	case token.SUB:
		return Val{f.Sub(a, b)}
	case token.MUL:
		return Val{f.Mul(a, b)}
	case token.QUO, token.REM:
		tr.oblige("div", in.Pos(), f.Neq(b, f.BVi(w, 0)), "integer divide by zero")
		if sg {
			if in.Op == token.QUO {
				return Val{f.SDiv(a, b)}
			}
			return Val{f.SRem(a, b)}
		}
		if in.Op == token.QUO {
			return Val{f.UDiv(a, b)}
		}
		return Val{f.URem(a, b)}
	case token.AND:
		return Val{f.BAnd(a, b)}
	case token.OR:
		return Val{f.BOr(a, b)}
	case token.XOR:
		return Val{f.BXor(a, b)}
	case token.AND_NOT:
		return Val{f.BAnd(a, f.BNot(b))}
	case token.SHL, token.SHR:
		yw, ysg, _ := intLeaf(in.Y.Type())
		if ysg {
			tr.oblige("shift", in.Pos(), f.SLe(f.BVi(yw, 0), b), "negative shift amount")
		}
		return Val{tr.shift(in.Op, a, b, w, sg, yw)}
	case token.LSS:
		if sg {
			tr.subCmpLemma(w, a, b)
			return Val{f.SLt(a, b)}
		}
		return Val{f.ULt(a, b)}
	case token.LEQ:
		if sg {
			tr.subCmpLemma(w, a, b)
			return Val{f.SLe(a, b)}
		}
		return Val{f.ULe(a, b)}
	case token.GTR:
		if sg {
			tr.subCmpLemma(w, b, a)
			return Val{f.SLt(b, a)}
		}
		return Val{f.ULt(b, a)}
	case token.GEQ:
		if sg {
			tr.subCmpLemma(w, b, a)
			return Val{f.SLe(b, a)}
		}
		return Val{f.ULe(b, a)}
	}
	return tr.freshVal(in.Type(), "binop")
}

// subCmpLemma: for a signed 64-bit comparison of a difference p-q with c (the shape of `len(b[q:]) < c`), state the
// equivalent comparison without the subtraction. The formulas are valid (true for all values: every quantity is confined
// to [0, maxLen], so nothing wraps) and are added only because the solvers need tens of seconds to find them by
// bit-blasting; the sum q+c is the term the following slice expression b[q:q+c] uses.
func (tr *Tr) subCmpLemma(w int, x, y *Term) {
	if w != 64 {
		return
	}
	f := tr.f
	z := f.BVi(64, 0)
	in := func(t *Term) *Term { return f.And(f.SLe(z, t), f.SLe(t, tr.maxLen)) }
	if x.Op == "bvsub" && len(x.Args) == 2 {
		p, q, c := x.Args[0], x.Args[1], y
		rng := f.And(in(p), in(q), in(c), f.SLe(q, p))
		tr.assume(f.Implies(rng, f.And(f.Eq(f.SLt(x, c), f.SLt(p, f.Add(q, c))), f.Eq(f.SLe(x, c), f.SLe(p, f.Add(q, c))))), "difference comparison (valid lemma)")
	}
	if y.Op == "bvsub" && len(y.Args) == 2 {
		p, q, c := y.Args[0], y.Args[1], x
		rng := f.And(in(p), in(q), in(c), f.SLe(q, p))
		tr.assume(f.Implies(rng, f.And(f.Eq(f.SLt(c, y), f.SLt(f.Add(q, c), p)), f.Eq(f.SLe(c, y), f.SLe(f.Add(q, c), p)))), "difference comparison (valid lemma)")
	}
}

func (tr *Tr) shift(op token.Token, a, b *Term, w int, sg bool, yw int) *Term {
	f := tr.f
	var cnt, big *Term
	if yw > w {
		big = f.ULe(f.BVi(yw, int64(w)), b)
		cnt = f.Extract(w-1, 0, b)
	} else {
		cnt = f.ZExt(b, w)
		big = f.ULe(f.BVi(w, int64(w)), cnt)
	}
	switch {
	case op == token.SHL:
		return f.Ite(big, f.BVi(w, 0), f.Shl(a, cnt))
	case sg:
		return f.Ite(big, f.AShr(a, f.BVi(w, int64(w-1))), f.AShr(a, cnt))
	default:
		return f.Ite(big, f.BVi(w, 0), f.LShr(a, cnt))
	}
}

func isNilConst(v ssa.Value) bool {
	c, ok := v.(*ssa.Const)
	return ok && c.Value == nil
}

func (tr *Tr) eqVals(t types.Type, x, y Val, xv, yv ssa.Value) *Term {
	f := tr.f
	ls := shape(t)
	if len(ls) == 0 {
		return f.True()
	}
	switch ls[0].kind {
	case "str.id":
		return f.Eq(x[0], y[0])
	case "if.t":
		if (xv != nil && isNilConst(xv)) || (yv != nil && isNilConst(yv)) {
			return f.Eq(x[0], y[0])
		}
		if len(ls) == 3 {
			return f.And(f.Eq(x[0], y[0]), f.Eq(x[1], y[1]), f.Eq(x[2], y[2]))
		}
	case "sl.reg":
		return f.Eq(x[0], y[0]) // only nil comparison is legal
	case "ptr.reg":
		if len(ls) == 2 {
			if (xv != nil && isNilConst(xv)) || (yv != nil && isNilConst(yv)) {
				return f.Eq(x[0], y[0])
			}
		}
	}
	if len(x) != len(y) {
		return f.Fresh("eq", SBool)
	}
	var parts []*Term
	for i := 0; i < len(ls); i++ {
		if ls[i].kind == "str.len" {
			continue
		}
		parts = append(parts, f.Eq(x[i], y[i]))
	}
	return f.And(parts...)
}

func (tr *Tr) convert(fr *Frame, x *ssa.Convert) Val {
	f := tr.f
	from, to := x.X.Type(), x.Type()
	fw, fsg, fok := intLeaf(from)
	tw, _, tok := intLeaf(to)
	v := tr.val(x.X)
	if fok && tok {
		_ = fw
		return Val{f.Ext(v[0], tw, fsg)}
	}
	// string <-> []byte
	if isString(from) && isSlice(to) {
		el := elemType(to)
		if w, _, ok := intLeaf(el); ok && w == 8 {
			reg := tr.allocRegion(fr.st)
			tr.setInner(fr.st, "8", reg, f.App("strbytes", ArrS(S64, S8), v[0]))
			return Val{reg, f.BVi(64, 0), v[1], v[1]}
		}
		// []rune(s)
		reg := tr.allocRegion(fr.st)
		tr.setInner(fr.st, "32", reg, f.App("strrunes", ArrS(S64, S32), v[0]))
		ln := f.App("runecount", S64, v[0])
		tr.assume(f.And(f.SLe(f.BVi(64, 0), ln), f.SLe(ln, v[1])), "rune count <= byte length")
		return Val{reg, f.BVi(64, 0), ln, ln}
	}
	if isSlice(from) && isString(to) {
		el := elemType(from)
		if w, _, ok := intLeaf(el); ok && w == 8 {
			id := f.App("mkstr", S64, tr.inner(fr.st, "8", v[0]), v[1], v[2])
			tr.assume(f.Eq(f.Eq(id, f.BVi(64, 0)), f.Eq(v[2], f.BVi(64, 0))), "mkstr header")
			return Val{id, v[2]}
		}
		id := f.App("mkstr_runes", S64, tr.inner(fr.st, "32", v[0]), v[1], v[2])
		ln := f.App("strlen", S64, id)
		tr.assume(f.And(f.SLe(f.BVi(64, 0), ln), f.SLe(ln, tr.maxLen), f.SLe(v[2], ln), f.Eq(f.Eq(id, f.BVi(64, 0)), f.Eq(ln, f.BVi(64, 0)))), "string(runes) header")
		return Val{id, ln}
	}
	if isString(to) && fok {
		id := f.App("runestr", S64, f.Ext(v[0], 64, fsg))
		ln := f.App("strlen", S64, id)
		tr.assume(f.And(f.SLe(f.BVi(64, 1), ln), f.SLe(ln, f.BVi(64, 4)), f.Neq(id, f.BVi(64, 0))), "string(rune) header")
		return Val{id, ln}
	}
	fl, tl := shape(from), shape(to)
	if len(fl) == 1 && len(tl) == 1 {
		// int <-> float etc: uninterpreted but functional
		return Val{f.App(fmt.Sprintf("conv_%s_%s", sanitize(types.TypeString(from.Underlying(), nil)), sanitize(types.TypeString(to.Underlying(), nil))), tl[0].S, v[0])}
	}
	if len(fl) == len(tl) {
		same := true
		for i := range fl {
			if fl[i].S != tl[i].S {
				same = false
			}
		}
		if same {
			return v
		}
	}
	tr.note("unmodelled conversion " + from.String() + " -> " + to.String())
	return tr.freshVal(to, "conv")
}

func (tr *Tr) makeInterface(fr *Frame, t types.Type, v Val) Val {
	f := tr.f
	tid := f.BVu(64, typeID(t))
	ls := shape(t)
	if len(ls) == 2 && ls[0].kind == "ptr.reg" {
		out := Val{tid, v[0], v[1]}
		for _, at := range tr.P.errAsTargets() {
			if types.Identical(at, t) {
				tr.assumeHere(tr.errHas(at, out), "value of type "+t.String()+" is found by errors.As")
			}
		}
		return out
	}
	// box
	reg := tr.allocRegion(fr.st)
	tr.storeLeaves(fr.st, ls, reg, f.BVi(64, 0), v)
	return Val{tid, reg, f.BVi(64, 0)}
}

func (tr *Tr) unbox(fr *Frame, t types.Type, iv Val) Val {
	ls := shape(t)
	if len(ls) == 2 && ls[0].kind == "ptr.reg" {
		return Val{iv[1], iv[2]}
	}
	v := tr.loadLeaves(fr.st, ls, iv[1], iv[2])
	tr.assumeInv(ls, v)
	return v
}

func (tr *Tr) typeAssert(fr *Frame, x *ssa.TypeAssert) Val {
	f := tr.f
	iv := tr.val(x.X)
	var ok *Term
	var v Val
	if isIface(x.AssertedType) {
		it := x.AssertedType.Underlying().(*types.Interface)
		if it.NumMethods() == 0 {
			ok = f.Neq(iv[0], f.BVi(64, 0))
		} else {
			ok = f.And(f.Neq(iv[0], f.BVi(64, 0)), f.App("implements_"+sanitize(fmt.Sprintf("%x", strHash(types.TypeString(x.AssertedType, nil)))), SBool, iv[0]))
			// static knowledge: if the static type of X already implements the asserted interface the assertion succeeds on non-nil
			if types.Implements(x.X.Type(), it) {
				ok = f.Neq(iv[0], f.BVi(64, 0))
			}
		}
		v = iv
	} else {
		ok = f.Eq(iv[0], f.BVu(64, typeID(x.AssertedType)))
		v = tr.unbox(fr, x.AssertedType, iv)
	}
	if x.CommaOk {
		// zero value when !ok
		ls := shape(x.AssertedType)
		z := tr.zeroVal(ls)
		out := make(Val, 0, len(v)+1)
		for i := range v {
			out = append(out, f.Ite(ok, v[i], z[i]))
		}
		return append(out, ok)
	}
	tr.oblige("typeassert", x.Pos(), ok, "interface conversion panics")
	return v
}

func (tr *Tr) indexAddr(fr *Frame, x *ssa.IndexAddr) Val {
	f := tr.f
	i64, sg := tr.idx64(x.Index)
	n := int64(nleaves(elemType(x.X.Type())))
	switch u := x.X.Type().Underlying().(type) {
	case *types.Slice:
		s := tr.val(x.X)
		var cond *Term
		if sg {
			cond = f.And(f.SLe(f.BVi(64, 0), i64), f.SLt(i64, s[2]))
		} else {
			cond = f.ULt(i64, s[2])
		}
		tr.oblige("bounds", x.Pos(), cond, "index out of range")
		tr.sliceTypeFacts(u.Elem(), s[0])
		return Val{s[0], f.Add(s[1], f.Mul(i64, f.BVi(64, n)))}
	case *types.Pointer:
		a := u.Elem().Underlying().(*types.Array)
		p := tr.val(x.X)
		tr.nilCheck(x.Pos(), p[0], "nil array pointer")
		tr.oblige("bounds", x.Pos(), f.ULt(i64, f.BVi(64, a.Len())), "array index out of range")
		return Val{p[0], f.Add(p[1], f.Mul(i64, f.BVi(64, n)))}
	}
	tr.note("unmodelled IndexAddr")
	return Val{f.Fresh("ia", S64), f.Fresh("ia", S64)}
}

func (tr *Tr) index(fr *Frame, x *ssa.Index) Val {
	f := tr.f
	i64, _ := tr.idx64(x.Index)
	if a, ok := x.X.Type().Underlying().(*types.Array); ok {
		v := tr.val(x.X)
		n := nleaves(a.Elem())
		tr.oblige("bounds", x.Pos(), f.ULt(i64, f.BVi(64, a.Len())), "array index out of range")
		if i64.Op == "bv" {
			k := int(i64.Val.Int64())
			if k >= 0 && (k+1)*n <= len(v) {
				return v[k*n : (k+1)*n]
			}
		}
		if a.Len() <= 256 && int(a.Len())*n <= len(v) {
			out := make(Val, n)
			for j := 0; j < n; j++ {
				t := v[(int(a.Len())-1)*n+j]
				for k := int(a.Len()) - 2; k >= 0; k-- {
					t = f.Ite(f.Eq(i64, f.BVi(64, int64(k))), v[k*n+j], t)
				}
				out[j] = t
			}
			return out
		}
	}
	if isString(x.X.Type()) {
		s := tr.val(x.X)
		tr.oblige("bounds", x.Pos(), f.ULt(i64, s[1]), "string index out of range")
		return Val{f.Select(f.App("strbytes", ArrS(S64, S8), s[0]), i64)}
	}
	return tr.freshVal(x.Type(), "ix")
}

func (tr *Tr) sliceOp(fr *Frame, x *ssa.Slice) Val {
	f := tr.f
	z := f.BVi(64, 0)
	get := func(v ssa.Value, dflt *Term) *Term {
		if v == nil {
			return dflt
		}
		s, _ := tr.idx64(v)
		return s
	}
	switch u := x.X.Type().Underlying().(type) {
	case *types.Slice:
		s := tr.val(x.X)
		n := int64(nleaves(u.Elem()))
		lo := get(x.Low, z)
		hi := get(x.High, s[2])
		mx := get(x.Max, s[3])
		var conds []*Term
		if x.Low != nil {
			conds = append(conds, f.SLe(z, lo))
		}
		conds = append(conds, f.SLe(lo, hi))
		if x.High != nil || x.Max != nil {
			conds = append(conds, f.SLe(hi, mx))
		}
		if x.Max != nil {
			conds = append(conds, f.SLe(mx, s[3]))
		}
		tr.oblige("bounds", x.Pos(), f.And(conds...), "slice bounds out of range")
		nl, nc := f.Sub(hi, lo), f.Sub(mx, lo)
		// a valid formula (no assumption): what the check above and the operand's header give for the new header. Stated
		// because re-deriving `hi-lo <= cap-lo` over 64-bit vectors costs the solvers tens of seconds per use.
		tr.assume(f.Implies(f.And(f.SLe(z, lo), f.SLe(lo, hi), f.SLe(hi, mx), f.SLe(mx, s[3]), f.SLe(s[3], tr.maxLen)),
			f.And(f.SLe(z, nl), f.SLe(nl, nc), f.SLe(nc, s[3]), f.SLe(nl, hi))), "sub-slice header (valid lemma)")
		return Val{s[0], f.Add(s[1], f.Mul(lo, f.BVi(64, n))), nl, nc}
	case *types.Pointer:
		a := u.Elem().Underlying().(*types.Array)
		n := int64(nleaves(a.Elem()))
		p := tr.val(x.X)
		tr.nilCheck(x.Pos(), p[0], "nil array pointer")
		N := f.BVi(64, a.Len())
		lo := get(x.Low, z)
		hi := get(x.High, N)
		mx := get(x.Max, N)
		tr.oblige("bounds", x.Pos(), f.And(f.SLe(z, lo), f.SLe(lo, hi), f.SLe(hi, mx), f.SLe(mx, N)), "slice bounds out of range")
		return Val{p[0], f.Add(p[1], f.Mul(lo, f.BVi(64, n))), f.Sub(hi, lo), f.Sub(mx, lo)}
	case *types.Basic: // string
		s := tr.val(x.X)
		lo := get(x.Low, z)
		hi := get(x.High, s[1])
		tr.oblige("bounds", x.Pos(), f.And(f.SLe(z, lo), f.SLe(lo, hi), f.SLe(hi, s[1])), "string slice bounds out of range")
		ln := f.Sub(hi, lo)
		id := f.App("substr", S64, s[0], lo, hi)
		tr.assume(f.Eq(f.Eq(id, z), f.Eq(ln, z)), "substr header")
		return Val{id, ln}
	}
	return tr.freshVal(x.Type(), "sl")
}

func (tr *Tr) phi(fr *Frame, x *ssa.Phi) Val {
	b := x.Block()
	if li := fr.loops[b]; li != nil {
		if v, ok := li.phiVal[x]; ok {
			return v
		}
	}
	ls := shape(x.Type())
	out := make(Val, len(ls))
	for k := range ls {
		var t *Term
		for i := len(x.Edges) - 1; i >= 0; i-- {
			e, ok := fr.edge[[2]int{b.Preds[i].Index, b.Index}]
			if !ok || e.IsFalse() {
				continue
			}
			ev := tr.val(x.Edges[i])
			if k >= len(ev) {
				t = tr.f.Fresh("phx", ls[k].S)
				break
			}
			if t == nil {
				t = ev[k]
			} else {
				t = tr.f.Ite(e, ev[k], t)
			}
		}
		if t == nil {
			t = tr.f.Fresh("phdead", ls[k].S)
		}
		out[k] = t
	}
	return out
}

func (tr *Tr) next(fr *Frame, x *ssa.Next) Val {
	// (ok, key, value)
	tt := x.Type().(*types.Tuple)
	out := Val{tr.f.Fresh("next_ok", SBool)}
	for i := 1; i < tt.Len(); i++ {
		out = append(out, tr.freshVal(tt.At(i).Type(), "next")...)
	}
	if !x.IsString {
		tr.note("range over map (order unspecified; body executed for an arbitrary key)")
	}
	return out
}

// immutable globals: sentinel errors and package-level values never stored outside init.
func (tr *Tr) immutableGlobal(g *ssa.Global) (Val, bool) {
	t := g.Type().Underlying().(*types.Pointer).Elem()
	if !tr.P.globalImmutable(g) {
		return nil, false
	}
	ls := shape(t)
	name := "G." + sanitize(g.String())
	out := make(Val, len(ls))
	for i, l := range ls {
		out[i] = tr.f.Var(fmt.Sprintf("%s.%d", name, i), l.S)
	}
	tr.assumeInv(ls, out)
	if isIface(t) && types.Identical(t, types.Universe.Lookup("error").Type()) {
		tr.assume(tr.f.Neq(out[0], tr.f.BVi(64, 0)), "sentinel error "+g.String()+" is non-nil")
		// distinct sentinels are distinct values
		tr.assume(tr.f.Eq(out[1], tr.f.BVu(64, 0x200000+(strHash(g.String())%0xF00000))), "sentinel error identity "+g.String())
		tr.trust("package-level error sentinel " + g.String() + " is non-nil and never reassigned")
	}
	if gi := tr.P.globalInv(g); gi != nil && !isPkgInit(tr.frames[0].fn) {
		tr.assumeGlobalInv(g, out, gi)
	}
	return out, true
}

func describe(prog *ssa.Program, pos token.Pos) string {
	if !pos.IsValid() {
		return "-"
	}
	p := prog.Fset.Position(pos)
	return fmt.Sprintf("%s:%d", strings.TrimPrefix(p.Filename, "/repo/"), p.Line)
}

// typeFrameCheck: inside a loop whose havoc assumed "only objects of struct type T change", a write through a pointer
// obtained inside the loop must indeed hit an object allocated as T.
func (tr *Tr) typeFrameCheck(fr *Frame, pos token.Pos, root ssa.Value, reg *Term) {
	if fr.cur == nil {
		return
	}
	pt, ok := root.Type().Underlying().(*types.Pointer)
	if !ok {
		return
	}
	name := types.TypeString(pt.Elem(), nil)
	for _, li := range fr.loops {
		if li.typeFramed[name] && li.blocks[fr.cur] {
			if in, ok := root.(ssa.Instruction); ok && li.blocks[in.Block()] {
				tr.obligeNamed("rtype", "", pos, tr.f.Eq(tr.rtype(reg), tr.f.BVu(64, typeTag(pt.Elem()))), "object written inside the loop was allocated as "+name+" (assumed by the loop frame)")
				return
			}
		}
	}
}

type privMap struct {
	prefix string // component name prefix of the map's type ("M.<type>.")
	id     *Term
}

// privateMap: the map value made here is used only as the operand of lookups, updates, delete, len and range in this
// function (never stored, passed, returned, captured or converted), so no other code holds a reference to it.
func privateMap(m *ssa.MakeMap) bool {
	refs := m.Referrers()
	if refs == nil {
		return true
	}
	for _, r := range *refs {
		switch x := r.(type) {
		case *ssa.DebugRef:
		case *ssa.Lookup:
			if x.X != ssa.Value(m) {
				return false
			}
		case *ssa.MapUpdate:
			if x.Map != ssa.Value(m) || x.Key == ssa.Value(m) || x.Value == ssa.Value(m) {
				return false
			}
		case *ssa.Range:
		case *ssa.Call:
			b, ok := x.Call.Value.(*ssa.Builtin)
			if !ok || (b.Name() != "delete" && b.Name() != "len" && b.Name() != "clear") {
				return false
			}
		default:
			return false
		}
	}
	return true
}

// privateAlloc: the cell's address is only loaded from, stored to, projected, or captured by closures that this function
// defers or calls directly (never passed to another function, stored in memory or returned).
func privateAlloc(a *ssa.Alloc) bool {
	var ok func(v ssa.Value, depth int) bool
	ok = func(v ssa.Value, depth int) bool {
		if depth > 6 {
			return false
		}
		refs := v.Referrers()
		if refs == nil {
			return true
		}
		for _, r := range *refs {
			switch x := r.(type) {
			case *ssa.DebugRef:
			case *ssa.UnOp:
				if x.Op != token.MUL {
					return false
				}
			case *ssa.Store:
				if x.Val == v {
					return false
				}
			case *ssa.FieldAddr:
				if !ok(x, depth+1) {
					return false
				}
			case *ssa.IndexAddr:
				if !ok(x, depth+1) {
					return false
				}
			case *ssa.MakeClosure:
				crefs := x.Referrers()
				if crefs == nil {
					continue
				}
				for _, cr := range *crefs {
					switch y := cr.(type) {
					case *ssa.Defer:
						if y.Call.Value != ssa.Value(x) {
							return false
						}
					case *ssa.Call:
						if y.Call.Value != ssa.Value(x) {
							return false
						}
					case *ssa.DebugRef:
					default:
						return false
					}
				}
			default:
				return false
			}
		}
		return true
	}
	return ok(a, 0)
}
