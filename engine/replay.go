package main

import (
	"bufio"
	"bytes"
	"encoding/json"
	"fmt"
	"os"
	"os/exec"
	"path/filepath"
	"regexp"
	"strings"
)

// A replay file is a Go test file whose header says `// replay: package=<dir relative to the repo>`.
// It is injected into that package by overlay (nothing is written into the repository), together with the shared
// fakes of /verif/replay/fakes.go.txt. Packages whose own tests have a TestMain needing docker get their *_test.go
// files masked for the replay build.

type replayResult struct {
	Reproduced bool
	Output     string
	Cmd        string
	Err        string
}

var replayHdr = regexp.MustCompile(`(?m)^// replay: package=(\S+)`)

func runReplay(repo, file string) replayResult {
	src, err := os.ReadFile(file)
	if err != nil {
		return replayResult{Err: err.Error()}
	}
	if bytes.HasPrefix(src, []byte("{")) || !replayHdr.Match(src) {
		return replayResult{Err: "not an executable replay (no `// replay: package=` header): the file names the failed obligation and carries the solver output"}
	}
	pkgDir := string(replayHdr.FindSubmatch(src)[1])
	abs := filepath.Join(repo, pkgDir)
	pkgName := ""
	if m := regexp.MustCompile(`(?m)^package (\w+)`).FindSubmatch(src); m != nil {
		pkgName = string(m[1])
	}
	tmp, err := os.MkdirTemp("", "vgo-replay-")
	if err != nil {
		return replayResult{Err: err.Error()}
	}
	defer os.RemoveAll(tmp)
	ov := map[string]string{}
	testPath := filepath.Join(tmp, "zz_verif_replay_test.go")
	_ = os.WriteFile(testPath, src, 0o644)
	ov[filepath.Join(abs, "zz_verif_replay_test.go")] = testPath
	fakes, err := os.ReadFile(filepath.Join(verifRoot(), "replay", "fakes.go.txt"))
	if err == nil {
		fp := filepath.Join(tmp, "zz_verif_fakes_test.go")
		if i := bytes.Index(fakes, []byte("// ---- storage fakes")); i >= 0 {
			if strings.HasPrefix(pkgDir, "backend") {
				fakes = fakes[:i]
			} else {
				fakes = bytes.Replace(fakes, []byte("import (\n"), []byte("import (\n\t\"github.com/diskfs/go-diskfs/backend\"\n"), 1)
			}
		}
		_ = os.WriteFile(fp, bytes.Replace(fakes, []byte("package PKG"), []byte("package "+pkgName), 1), 0o644)
		ov[filepath.Join(abs, "zz_verif_fakes_test.go")] = fp
	}
	// mask the package's own tests (TestMain with docker, slow fixtures)
	ents, _ := os.ReadDir(abs)
	for _, e := range ents {
		if strings.HasSuffix(e.Name(), "_test.go") {
			// keep files in the external test package out as well
			ov[filepath.Join(abs, e.Name())] = ""
		}
	}
	ovJSON, _ := json.Marshal(map[string]any{"Replace": ov})
	ovPath := filepath.Join(tmp, "overlay.json")
	_ = os.WriteFile(ovPath, ovJSON, 0o644)
	args := []string{"test", "-overlay", ovPath, "-vet=off", "-count=1", "-timeout", "120s", "-run", "TestVerifReplay", "./" + pkgDir}
	cmd := exec.Command("go", args...)
	cmd.Dir = repo
	cmd.Env = append(os.Environ(), "GOFLAGS=-mod=mod", "GOPROXY=off")
	var out bytes.Buffer
	cmd.Stdout = &out
	cmd.Stderr = &out
	runErr := cmd.Run()
	res := replayResult{Output: out.String(), Cmd: "cd " + repo + " && go " + strings.Join(args, " ")}
	if runErr != nil {
		if strings.Contains(out.String(), "[build failed]") || strings.Contains(out.String(), "[setup failed]") {
			res.Err = "replay does not build"
		} else {
			res.Reproduced = true
		}
	}
	return res
}

func verifRoot() string {
	if v := os.Getenv("VERIF_ROOT"); v != "" {
		return v
	}
	return "/verif"
}

func cmdReplay(args []string) {
	repo := "/repo"
	var files []string
	for i := 0; i < len(args); i++ {
		if args[i] == "--repo" && i+1 < len(args) {
			repo = args[i+1]
			i++
			continue
		}
		files = append(files, args[i])
	}
	if len(files) == 0 {
		fmt.Fprintln(os.Stderr, "usage: vgo replay [--repo dir] <replay file>")
		os.Exit(2)
	}
	code := 0
	for _, f := range files {
		r := runReplay(repo, f)
		if r.Err != "" {
			fmt.Printf("replay %s: %s\n", f, r.Err)
			// print the file so that the obligation and solver output are visible
			if fh, err := os.Open(f); err == nil {
				sc := bufio.NewScanner(fh)
				for i := 0; sc.Scan() && i < 60; i++ {
					fmt.Println("  | " + sc.Text())
				}
				fh.Close()
			}
			code = 2
			continue
		}
		fmt.Printf("$ %s\n%s", r.Cmd, r.Output)
		if r.Reproduced {
			fmt.Printf("REPRODUCED: %s fails on the code in %s\n", f, repo)
			code = 1
		} else {
			fmt.Printf("NOT REPRODUCED: %s passes on the code in %s\n", f, repo)
		}
	}
	os.Exit(code)
}
