package main

// Per-property statements that go into the evidence files: unchecked assumptions and the clauses of the property
// that the obligations do NOT decide.

var propAssumptions = map[string][]string{
	"C13": {
		"sector sizes are 512 or 4096 bytes (logical and physical); the precondition validSectors of WriteContents/ReadContents is checked at their callers in package disk only as far as those are under contract",
		"io.Reader / io.ReaderAt / io.WriterAt / io.Writer behave as their documentation says (environment contracts); their chunking is universally quantified",
		"sync.CopyPartitionRaw uses a goroutine and an io.Pipe: outside the modelled subset; its two ReadContents/WriteContents legs are covered, the pipe is not",
	},
}

func init() {
	propAssumptions["C02"] = []string{
		"logical sector size is 512 or 4096; a table given to Write is a separately allocated *Table whose Partitions are separately allocated non-nil *Partition objects (isobj/isarray region-typing assumptions at the API boundary)",
		"uuid.Parse / uuid.FromBytes / UUID.String / strings.ToUpper are deterministic functions (uninterpreted); Parse(ToUpper(String(u))) == u is NOT assumed, so GUID round-trip is stated as equality of the mixed-endian bytes with guidparse(...) on the write side and guidstring(...) on the read side",
		"utf16.Encode/Decode: only length bounds are modelled; the content of the name field is not under contract",
		"hash/crc32.ChecksumIEEE is an uninterpreted function of the byte sequence (two equal sequences have equal CRCs)",
		"gpt.reverseSlice (reflect.Swapper) is modelled natively as an in-place reversal (trusted)",
		"io.ReaderAt / io.WriterAt / io.Seeker / Sync behave as documented (environment contracts)",
	}
	propNotDecided["C02"] = []string{
		"that slot index-1 of the GPT entry array holds exactly the bytes of the partition with that index (the Go map in toPartitionArrayBytes is not under contract; index range, buffer size and bounds of every slot copy are proved, the per-entry encoding is proved in (*Partition).toBytes)",
		"equality of the array CRC recorded in the header with the CRC of the array that Write puts on disk (needs determinism of toPartitionArrayBytes across its three calls)",
		"partition names (UTF-16 content) and the list equality of Read(Write(t)) as a whole — decoders and encoders are proved field by field against the on-disk layout instead",
		"disk.(*Disk).GetPartition (interface dispatch over part.Partition)",
		"mbr.(*Table).Write accepts more than four partitions and ignores Partition.Index (D23, see known findings) — not modelled as an obligation",
	}
	propAssumptions["C15"] = []string{
		"logical block size passed to Read is 512 or 4096 (a parameter, not device content)",
		"device contents, ReadAt results (any n <= len, any error) and Seek results are unconstrained",
		"allocation bound proved: no single allocation in the gpt.Read call tree exceeds 8 MiB (65536 entries of 128 bytes); mbr.Read allocates 512 bytes",
		"termination: loops carry variants where the iteration count depends on device content (readPartitionArrayBytes); loops over in-memory slices are bounded by their length",
	}
	propNotDecided["C15"] = []string{
		"total allocation summed over a call (only each allocation is bounded)",
		"termination of foreign code (uuid, utf16, fmt)",
	}
	propAssumptions["C09"] = []string{
		"A1: CRC32 collision-freeness on the byte strings that occur (torn arrays, old/new headers)",
		"A2: the write of one header sector is atomic; A3: Sync makes earlier writes durable before later ones are issued; A4: Read sees the device size Write was given",
		"side separation is proved only when the backend implements Sync() (otherwise Write cannot order anything and the property is vacuous for that backend)",
		"the lemma /verif/lemmas/C09_gpt_crash_atomic.smt2 is linked to the contract clauses by name (manual transcription of the clauses into an abstract SMT model)",
	}
	propNotDecided["C09"] = []string{
		"first-ever write on a blank disk (old = no table): outside the lemma's hypothesis",
		"equality of the array CRC in the header with the array actually written (see C02)",
	}
	propAssumptions["C03"] = []string{
		"covers: mbr/gpt Table.Write (every device write is one of the table's own regions), mbr/gpt WriteContents (every write inside the partition)",
		"GPT regions do not overlap partition data only for the standard layout chosen by initTable (header fields of a table read from disk are taken as that table's own sectors)",
	}
	propNotDecided["C03"] = []string{
		"filesystems (fat12/16/32, ext4, iso9660, squashfs) and backend.SubStorage: not yet under contract in this check",
	}
	propAssumptions["C10"] = []string{
		"FAT (fat12 package, shared by fat16/fat32): the handle's cluster chain is valid and covers the file size (ghost chainok/chainlen of getClusterList, whose contract is trusted here and whose memory safety belongs to C18), bytesPerCluster is a power of two in 512..32768",
		"ext4: the flat extent list starts at block 0, is contiguous, has non-empty runs and covers the size (extentsOK); block size in {1024,2048,4096,65536}",
		"iso9660: block size in {2048,4096,8192} for the extent clause; squashfs: only Seek/Close/size are under contract",
		"pointer fields of a handle (inode, filesystem, directory entry, extent array) do not alias the handle object itself (separation preconditions)",
		"io.ReaderAt behaves as documented",
	}
	propNotDecided["C10"] = []string{
		"byte content returned by Read (placement of each device read is pinned for FAT and ISO; ext4 data placement and squashfs decompression are not)",
		"squashfs.(*File).Read (closure + cache + fragment logic: not discharged within the time limits, removed from the claim)",
		"ext4.(*File).Read: non-negativity of the per-extent byte count and progress (see unclaimed_obligations)",
		"sequences of calls (each call is specified against the handle state it starts from)",
	}
	propAssumptions["C11"] = []string{
		"ro(x) is the ghost predicate 'x.Writable() returns an error'. It is proved for file.rawBackend (readOnly flag) and for backend.SubStorage (propagation), assumed for any other backend.Storage implementation; backend.Sub links ro(view) to ro(underlying) by a trusted contract",
		"device writes are WRITE events, logged at every io.WriterAt.WriteAt call; a callee or loop from which no WriteAt/Truncate call is reachable in the static call graph (interface methods resolved by name to repository implementations, function values by type) appends no WRITE event - this effect inference is syntactic and over-approximate",
		"a device writer converted to io.Writer/any inside repository code, or handed to a function outside the repository, is treated as a possible write (event log havocked)",
		"fields never assigned after construction (e.g. fat12.FileSystem.backend) keep their value across unknown calls: established by a whole-repository scan of stores and escaping field addresses; unsafe, reflect and assembly are not analysed",
		"Go type safety: a *T or []T does not point into an object allocated as a struct type that contains no T",
		"functions marked nosafety are verified for executions that do not panic (panics are the subject of C18)",
		"os.OpenFile honours its flags (O_RDONLY opens cannot write)",
	}
	propNotDecided["C11"] = []string{
		"'no byte of the image changes' is decided as 'no WRITE event is issued'; writes by other processes or through the OS file obtained from Sys() are outside the model",
		"ext4: Create on a read-only backend and the ext4 mutators (Mkdir, OpenFile, Write, Remove, Rename, Chmod, Chown, Chtimes, Symlink, SetLabel) are not under contract (only ext4.Read, (*File).Read and initGroupDescriptorTables are); disk.CreateFilesystem is proved for every type but ext4",
		"fat32-specific SetLabel/writeBootSector/writeFsis and fat12.(*FileSystem).SetLabel/Chtimes/SetArchiveBit: they reach the device through function-valued hooks (WriteBootSectorFn/AfterWriteFAT) that are not under contract",
		"FAT Mkdir of an existing directory returns nil on a read-only backend (nothing to do, nothing written): treated as a non-mutating call; FAT OpenFile for writing on a read-only backend returns no error (known finding D25)",
		"iso9660/squashfs with a workspace (not finalized) write to the OS workspace directory, not to the image: not part of the property",
		"arbitrary interleavings: each entry point is specified against any state it can start from (fs.backend stable), which covers every sequential history; concurrent use is C17",
	}
	propAssumptions["C16"] = []string{
		"an io.Reader is a sequential stream: successive Reads deliver consecutive bytes of one fixed sequence, never past its end, io.EOF only at the end (ghost consumed(r), streamlen(r)); io.ReadFull and io.ReadAll are modelled on top of that",
		"fs.FS.Open returns a newly opened file, distinct from files opened earlier",
		"io.Writer.Write returns n < len(p) only together with an error (as documented)",
		"accessors of fs.DirEntry / fs.FileInfo (IsDir, Size ...) are deterministic and side-effect free",
	}
	propNotDecided["C16"] = []string{
		"byte-for-byte correspondence between the chunks compared by bytes.Equal and the two streams (the invariant with the quantified stream model timed out in every solver; only lengths, end-of-stream and the per-chunk comparison's place in the control flow are proved)",
		"CopyFileSystem / copyDir as a whole: recursion over directories, excluded names, symlinks, timestamps",
		"CompareFS's second walk (extra paths in the target) and the seen-set",
		"the destination filesystems' own Write/OpenFile (C01, C04) and that data written is data read back",
	}
	propAssumptions["C04"] = []string{
		"scope: util/bitmap (the block/inode allocation bitmaps of ext4) and the ext4 file handle; bitmaps hold at most 2^40 bytes; the receiver is a separately allocated *Bitmap",
		"ext4 handle assumptions as in C10 (contiguous extent list covering the size, block size in {1024,2048,4096,65536})",
		"Bitmap.FreeList: BOUNDED check only (all bitmaps of 0..3 bytes against a bit-by-bit reference), not a proof",
	}
	propNotDecided["C04"] = []string{
		"the property as stated - arbitrary sequences of Mkdir/create/write/append/Symlink/Remove/Chmod/Chown/Chtimes compared with a reference tree, live and after re-opening: ext4.go's mutators (allocateExtents, writeDirectory, mkDirEntry, Remove, extendExtentTree ...) are not under contract",
		"ext4 File.Write, directory and inode encoders/decoders (see C19 for the codecs that are under contract)",
		"Bitmap.FreeList beyond the bound of the bounded check; its use in allocateExtents",
	}
	propAssumptions["C14"] = []string{
		"sources of nondeterminism considered: time.Now/Since/Until, math/rand, crypto/rand, uuid.New*/NewRandom, os.Getenv (only through the declared gate), range over a map; goroutine scheduling, pointer values and the host file system are not considered",
		"timestamp.GetTime is the declared gate to the clock (effects boundary): proved to call time.Now only when SOURCE_DATE_EPOCH is empty or strconv.ParseInt rejects it",
		"callees without contract are classified by a syntactic call-graph search (interface methods by name, function values by type); callees under contract by their own effect clauses",
		"two executions with the same inputs and no nondeterminism source on any path produce the same bytes (determinism of Go code without such sources; not itself proved)",
	}
	propNotDecided["C14"] = []string{
		"byte-identity of images as such (no two-run comparison); histories of operations beyond each operation being free of nondeterminism sources",
		"independence from the start offset beyond the layout arguments of fat16/fat32 Create (fat12.Create and the geometry arithmetic are not pinned)",
		"gpt Table.Write / toGPTBytes: random-freedom when every GUID is given (only initEntry, initTable and toPartitionArrayBytes carry that conditional clause); mbr Table.Write; 'rewriting a table read from disk changes nothing' beyond the non-empty disk GUID",
		"fat32 writeBootSector/writeFsis/SetLabel (reached through function-valued hooks)",
	}
	propAssumptions["C18"] = []string{
		"scope: the functions listed under functions_under_contract - decoders and small readers that take bytes straight from the device, the three FAT Read functions, FAT File.Read; their inputs are unconstrained except for what the caller itself checked (stated as requires and proved at the call sites under contract; call sites in functions that are not under contract, or in nosafety functions, are unchecked and listed in trusted_base)",
		"block size / volume size / start offset parameters come from the caller, not from the image (size < 2^50)",
		"foreign code called by the decoders (encoding/binary, regexp, fmt, strings, unicode/utf16, compress/*) does not panic",
		"allocation bound: each make() in fat12/16/32.Read and iso9660.loadJoliet is bounded by the stated volume size (or by 2^31/2^32 when the size is given as 0 = unknown); table constructors are bounded by their byte-size argument",
		"functions marked nonil: pointer and interface values they receive from their (unverified) callers are not nil",
	}
	propNotDecided["C18"] = []string{
		"iso9660.Read, ext4.Read, squashfs.Read as wholes; iso9660 parseDirEntries/parseDirEntriesJoliet/parseDirEntry, supplementary volume descriptor; ext4 parseExtents, parseDirEntriesLinear, parseDirEntriesHashed, inodeFromBytes (safety), group descriptor and journal decoders; squashfs File.Read, readBlock, readMetaBlock, block cache",
		"termination ('no endless loop') except where a variant is stated (FAT chain walk, ext4 extent-tree depth); the continuation-area loop of iso9660.parseDirEntry (D39) and the hashed-directory walk (D52) are guarded by replays only",
		"total allocation over a call; decompressed sizes (D43 is guarded by its replay only)",
	}
	propAssumptions["C01"] = []string{
		"scope: fat12 package write path (shared by FAT12/16/32): File.Write, allocateSpace, writeDirectoryEntries, plus the handle contract of File.Read/Seek/Close (C10)",
		"the receiver filesystem object was allocated as a FileSystem (its immutable fields start, dataStart, bytesPerCluster are stable across unknown calls); FATTable methods are called through the interface (SetCluster call sites are enumerated and each carries the all-or-nothing assertion)",
	}
	propNotDecided["C01"] = []string{
		"equality with a reference tree over arbitrary operation sequences, live and after re-opening the image",
		"directory entry encoding/decoding, long-name to 8.3 conversion, numeric tails, case-insensitive lookup, Rename/Remove semantics",
		"cluster contents written equal the bytes handed to Write (placement and sizes are pinned, data flow is p[a:b] handed unchanged to WriteAt)",
		"space reuse without limit (Remove leaks the chain: known, D9), getClusterList on cyclic chains (D17)",
	}
	propAssumptions["C08"] = []string{
		"scope: the FAT encoders/writers named in functions_under_contract; see C01 for the shared write path and C14 for the Create layout clause",
	}
	propNotDecided["C08"] = []string{
		"the whole-volume invariants of the property (identical FAT copies, chains in range and terminated, no cross-linked or orphan clusters, sizes covered by chains, Create geometry, identical backup boot sector, sane FSInfo counters)",
		"12-bit packing correctness of fat12WriteEntry/fat12ReadEntry (only freshness and length of Bytes are proved)",
	}
	propAssumptions["C12"] = []string{
		"probe order is pinned by call-site assertions (each later probe is reached only with a non-nil error from the earlier one); FAT type thresholds by return-site assertions over the readers' own cluster-count computation",
	}
	propNotDecided["C12"] = []string{
		"that an image created as type T is accepted by T's reader and rejected by every earlier probe (format-level reasoning across six filesystem types; fat32.Read, iso9660.Read, squashfs.Read, ext4.Read acceptance tests are not specified)",
		"labels and contents of the recognised filesystem; stale bytes of a previous filesystem; blank ranges",
	}
	propAssumptions["C19"] = []string{
		"time.Time calendar accessors are deterministic functions of the value within their calendar ranges; time.Date is trusted to build the time from the fields it is given",
		"scope: the codec functions listed under functions_under_contract only",
	}
	propNotDecided["C19"] = []string{
		"end-to-end persistence of attributes through Stat/ReadLink/getters after re-opening (ext4 setters and inode codec apart from the inline-symlink rule, FAT entry encoder and attribute byte, squashfs inode builder, Rock Ridge entries)",
		"'changing one attribute of one file changes nothing else'; file kinds never confused",
		"round trip dateTimeToTime(timeToDateTime(t)) as one lemma (both directions are pinned to the same bit layout separately)",
	}
}

var propNotDecided = map[string][]string{
	"C13": {
		"byte-for-byte content equality between the reader's stream and the device after WriteContents (placement, counts and sizes are proved; the data path is b[:read] handed unchanged to WriteAt)",
		"CopyPartitionRaw as a whole (goroutine + pipe)",
	},
}

