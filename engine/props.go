package main

// Per-property statements that go into the evidence files: unchecked assumptions and the clauses of the property
// that the obligations do NOT decide.

var propAssumptions = map[string][]string{
	"C13": {
		"sector sizes are 512 or 4096 bytes (logical and physical); the precondition validSectors of WriteContents/ReadContents is checked at their callers in package disk only as far as those are under contract",
		"io.Reader / io.ReaderAt / io.WriterAt / io.Writer behave as their documentation says (environment contracts); their chunking is universally quantified",
		"sync.CopyPartitionRaw uses a goroutine and an io.Pipe: outside the modelled subset; its two ReadContents/WriteContents legs are covered, the pipe is not",
	},
}

var propNotDecided = map[string][]string{
	"C13": {
		"byte-for-byte content equality between the reader's stream and the device after WriteContents (placement, counts and sizes are proved; the data path is b[:read] handed unchanged to WriteAt)",
		"CopyPartitionRaw as a whole (goroutine + pipe)",
	},
}

func genReplay(P *Program, r *FnResult, o *Obligation, prop string) (string, bool) { return "", false }
