package main

import (
	"go/types"
	"context"
	"flag"
	"time"

	"golang.org/x/tools/go/ssa"
	"fmt"
	"os"
	"sort"
	"strings"
)

func main() {
	if len(os.Args) < 2 {
		fmt.Fprintln(os.Stderr, "usage: vgo verify|check|replay ...")
		os.Exit(2)
	}
	switch os.Args[1] {
	case "verify":
		cmdVerify(os.Args[2:])
	case "check":
		cmdCheck(os.Args[2:])
	case "replay":
		cmdReplay(os.Args[2:])
	case "effect":
		cmdEffect(os.Args[2:])
	case "fields":
		cmdFields(os.Args[2:])
	default:
		fmt.Fprintln(os.Stderr, "unknown command", os.Args[1])
		os.Exit(2)
	}
}

// verify: development command — verify functions under contract in the given packages, print every obligation.
func cmdVerify(args []string) {
	fs := flag.NewFlagSet("verify", flag.ExitOnError)
	repo := fs.String("repo", "/repo", "repository root")
	fn := fs.String("fn", "", "substring filter on function display name")
	dump := fs.String("dump", "", "directory for SMT scripts")
	timeout := fs.Int("timeout", 10000, "solver timeout ms")
	all := fs.Bool("all", false, "print discharged obligations too")
	nocontract := fs.Bool("sweep", false, "also translate functions without contract (safety obligations only)")
	explain := fs.Bool("explain", false, "split failing obligations into conjuncts and report which ones fail")
	only := fs.String("only", "", "discharge only obligations whose name contains this string")
	_ = fs.Parse(args)
	onlyObl = *only
	pats := fs.Args()
	if len(pats) == 0 {
		pats = []string{"./..."}
	}
	P, err := loadProgram(*repo, pats)
	if err != nil {
		fmt.Fprintln(os.Stderr, "load:", err)
		os.Exit(2)
	}
	var work []*FnResult
	type item struct {
		fn   string
		run  func() *FnResult
	}
	var items []item
	for f, ct := range P.contracts {
		f, ct := f, ct
		if *fn != "" && !strings.Contains(funcDisplay(f), *fn) {
			continue
		}
		if ct.Trusted {
			continue
		}
		items = append(items, item{funcDisplay(f), func() *FnResult { return verifyFn(P, f, ct, solveOpts{timeoutMs: *timeout, dumpDir: *dump}) }})
	}
	if *nocontract {
		for f := range P.allRepoFuncs() {
			f := f
			if P.contracts[f] != nil || (*fn != "" && !strings.Contains(funcDisplay(f), *fn)) {
				continue
			}
			items = append(items, item{funcDisplay(f), func() *FnResult { return verifyFn(P, f, nil, solveOpts{timeoutMs: *timeout, dumpDir: *dump}) }})
		}
	}
	sort.Slice(items, func(i, j int) bool { return items[i].fn < items[j].fn })
	for _, it := range items {
		work = append(work, it.run())
	}
	bad := 0
	for _, r := range work {
		fmt.Printf("== %s  grade=%s obligations=%d gen=%.2fs solve=%.2fs\n", r.Name, r.Grade, len(r.Obls), r.GenTime, r.SolveTime)
		if r.Panic != "" {
			fmt.Printf("   TRANSLATOR ERROR: %s\n", r.Panic)
			bad++
		}
		for _, e := range r.SpecErrs {
			fmt.Printf("   SPEC ERROR: %s\n", e)
			bad++
		}
		for _, n := range r.Notes {
			if !strings.HasPrefix(n, "inlined ") {
				fmt.Printf("   note: %s\n", n)
			}
		}
		for _, p := range r.Probes {
			if p.Result != "sat" {
				fmt.Printf("   VACUITY? %s: %s -> %s [%s %.2fs]\n", p.Name, p.Desc, p.Result, p.Solver, p.Time)
				if p.Result == "unsat" {
					bad++
					explainVacuity(r, p)
				}
			}
		}
		for _, d := range r.Dropped {
			fmt.Printf("   dropped candidate: %s\n", d)
		}
		for _, o := range r.Obls {
			if o.Result != "unsat" {
				bad++
			}
			if o.Result != "unsat" || *all {
				fmt.Printf("   %-7s %-40s %s  %s  [%s %.2fs %dB]\n", o.Result, o.Name, describe(P.prog, o.Pos), o.Desc, o.Solver, o.Time, o.SmtSize)
				if o.Result == "sat" && len(o.Model) > 0 {
					var ks []string
					for k := range o.Model {
						if strings.HasPrefix(k, "p_") || strings.HasPrefix(k, "fv_") {
							ks = append(ks, k)
						}
					}
					sort.Strings(ks)
					var sb strings.Builder
					for _, k := range ks {
						fmt.Fprintf(&sb, " %s=%s", k, o.Model[k])
					}
					fmt.Printf("           model:%s\n", sb.String())
				}
				if *explain && o.Result != "unsat" {
					explainObligation(r, o, solveOpts{timeoutMs: *timeout, dumpDir: *dump})
				}
				if o.Result != "unsat" && (o.Result != "sat" || *explain) {
					fmt.Printf("           %s\n", strings.ReplaceAll(strings.TrimSpace(o.Output), "\n", "\n           "))
				}
			}
		}
	}
	if bad > 0 {
		os.Exit(1)
	}
}

var globalSem = make(chan struct{}, 16)
var onlyObl string

// verifyFn: translate + discharge, with the Houdini loop over automatically proposed counter invariants.
func verifyFn(P *Program, fn *ssa.Function, ct *Contract, opt solveOpts) *FnResult {
	disabled := map[string]bool{}
	var dropped []string
	began := time.Now()
	for round := 0; round < 6; round++ {
		if round > 0 && time.Since(began) > 200*time.Second {
			break
		}
		res := translate(P, fn, ct, disabled)
		if res.Panic != "" {
			return res
		}
		dischargeAll(res, opt, globalSem)
		again := false
		for _, o := range res.Obls {
			if o.Kind == "inv-auto" && o.Result != "unsat" {
				key := o.Desc
				if !disabled[key] {
					disabled[key] = true
					dropped = append(dropped, o.Name+": "+o.Desc)
					again = true
				}
			}
		}
		if !again {
			res.Dropped = dropped
			return res
		}
	}
	res := translate(P, fn, ct, disabled)
	dischargeAll(res, opt, globalSem)
	res.Dropped = dropped
	return res
}


func explainObligation(r *FnResult, o *Obligation, opt solveOpts) {
	tr := r.tr
	parts := tr.f.splitConj(o.Cond)
	if len(parts) <= 1 {
		return
	}
	for i, p := range parts {
		o2 := &Obligation{Name: fmt.Sprintf("%s.part%d", o.Name, i), Kind: o.Kind, Reach: o.Reach, Cond: p, NAssume: o.NAssume}
		pr := tr.prepare1(o2, opt, nil)
		discharge(o2, pr, opt)
		if o2.Result != "unsat" {
			s := tr.f.Show(p)
			if len(s) > 700 {
				s = s[:700] + "..."
			}
			fmt.Printf("           part %d/%d %s: %s\n", i+1, len(parts), o2.Result, s)
		}
	}
}

// explainVacuity: binary search for the first assumption that makes the set contradictory.
func explainVacuity(r *FnResult, p *Obligation) {
	tr := r.tr
	check := func(n int, withReach bool) bool {
		var as []*Term
		for _, a := range tr.assumes[:n] {
			as = append(as, a.T)
		}
		if withReach {
			as = append(as, p.Reach)
		}
		g, _, _ := tr.f.groundQuery(as)
		sc := tr.f.Script(g, nil)
		res := runSolver(context.Background(), solvers[0], sc.Text, 5000, sc.Quant, false)
		return res.res == "unsat"
	}
	if !check(p.NAssume, false) {
		fmt.Printf("           assumptions alone are consistent; contradiction involves the reach condition of the exit\n")
		return
	}
	lo, hi := 0, p.NAssume
	for lo < hi {
		mid := (lo + hi) / 2
		if check(mid, false) {
			hi = mid
		} else {
			lo = mid + 1
		}
	}
	if lo > 0 && lo <= len(tr.assumes) {
		a := tr.assumes[lo-1]
		s := tr.f.Show(a.T)
		if len(s) > 600 {
			s = s[:600] + "..."
		}
		fmt.Printf("           contradiction appears with assumption #%d: %s\n             %s\n", lo, a.Why, s)
	}
}

// effect: development command — `vgo effect [--repo dir] <eff> <fn-substring> <pkg>...` prints why a function may reach an effect source.
func cmdEffect(args []string) {
	fs := flag.NewFlagSet("effect", flag.ExitOnError)
	repo := fs.String("repo", "/repo", "repository root")
	_ = fs.Parse(args)
	a := fs.Args()
	if len(a) < 3 {
		fmt.Fprintln(os.Stderr, "usage: vgo effect <eff> <fn-substring> <pkg>...")
		os.Exit(2)
	}
	P, err := loadProgram(*repo, a[2:])
	if err != nil {
		fmt.Fprintln(os.Stderr, "load:", err)
		os.Exit(2)
	}
	for f := range P.allRepoFuncs() {
		if !strings.Contains(funcDisplay(f), a[1]) {
			continue
		}
		fmt.Printf("%s: mayEffect(%s)=%v\n", funcDisplay(f), a[0], P.mayEffect(f, a[0]))
		for _, l := range P.effectWitness(f, a[0]) {
			fmt.Println("    ", l)
		}
	}
}

// fields: development command — `vgo fields <type-substring> <pkg>...` lists the immutable-after-construction fields.
func cmdFields(args []string) {
	if len(args) < 2 {
		fmt.Fprintln(os.Stderr, "usage: vgo fields <type-substring> <pkg>...")
		os.Exit(2)
	}
	P, err := loadProgram("/repo", args[1:])
	if err != nil {
		fmt.Fprintln(os.Stderr, "load:", err)
		os.Exit(2)
	}
	for _, tp := range P.tpkgs {
		if tp.Types == nil {
			continue
		}
		sc := tp.Types.Scope()
		for _, nm := range sc.Names() {
			tn, ok := sc.Lookup(nm).(*types.TypeName)
			if !ok {
				continue
			}
			n, st := namedStruct(tn.Type())
			if n == nil || !strings.Contains(types.TypeString(n, nil), args[0]) {
				continue
			}
			im := map[int]bool{}
			for _, i := range P.immutableFields(n) {
				im[i] = true
			}
			fmt.Println(types.TypeString(n, nil))
			for i := 0; i < st.NumFields(); i++ {
				fmt.Printf("    %-28s immutable=%v\n", st.Field(i).Name(), im[i])
			}
		}
	}
}
