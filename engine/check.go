package main

import (
	"context"
	"encoding/json"
	"flag"
	"fmt"
	"os"
	"path/filepath"
	"regexp"
	"sort"
	"strconv"
	"strings"
	"sync"
	"time"

	"golang.org/x/tools/go/ssa"
)

// ---------- known findings

type KnownFinding struct {
	ID         string `json:"id"`
	Property   string `json:"property"`
	Status     string `json:"status"` // "known" | "fixed"
	Function   string `json:"function"`
	Obligation string `json:"obligation"` // obligation name (kind#label), or prefix ending in '*'
	Except     string `json:"except,omitempty"`
	What       string `json:"what"`
	Replay     string `json:"replay,omitempty"`
	Commit     string `json:"commit,omitempty"`
	Line       string `json:"line,omitempty"` // the "fixed: property=<id> <commit> <what failed>" line
}

type KnownFile struct {
	Findings []KnownFinding `json:"findings"`
}

// Unclaimed obligations: generated from the contract but not discharged on the unchanged tree within the time limits
// (neither proved nor refuted). They are not part of any claim; the evidence lists them.
type Unclaimed struct {
	Function   string `json:"function"`
	Obligation string `json:"obligation"`
	Reason     string `json:"reason"`
}

func loadUnclaimed() []Unclaimed {
	var u []Unclaimed
	b, err := os.ReadFile(filepath.Join(verifRoot(), "unclaimed.json"))
	if err != nil {
		return nil
	}
	_ = json.Unmarshal(b, &u)
	return u
}

func isUnclaimed(us []Unclaimed, fn, obl string) *Unclaimed {
	for i := range us {
		if us[i].Function == fn && (us[i].Obligation == obl || (strings.HasSuffix(us[i].Obligation, "*") && strings.HasPrefix(obl, strings.TrimSuffix(us[i].Obligation, "*")))) {
			return &us[i]
		}
	}
	return nil
}

func loadKnown() KnownFile {
	var kf KnownFile
	b, err := os.ReadFile(filepath.Join(verifRoot(), "known_findings.json"))
	if err != nil {
		return kf
	}
	_ = json.Unmarshal(b, &kf)
	return kf
}

func matchKnown(kf KnownFile, prop, fn, obl string) *KnownFinding {
	for i := range kf.Findings {
		k := &kf.Findings[i]
		if k.Status != "known" || k.Function != fn {
			continue
		}
		// a function may serve several properties: a listed finding is recognised whichever property's check meets it
		_ = prop
		if k.Obligation == obl || (strings.HasSuffix(k.Obligation, "*") && strings.HasPrefix(obl, strings.TrimSuffix(k.Obligation, "*"))) {
			return k
		}
	}
	return nil
}

// ---------- evidence

type fnEvidence struct {
	Function    string   `json:"function"`
	Grade       string   `json:"grade"`
	Obligations int      `json:"obligations"`
	Discharged  int      `json:"discharged"`
	Known       int      `json:"known_findings"`
	SolveS      float64  `json:"solve_s"`
	Notes       []string `json:"abstractions,omitempty"`
	Dropped     []string `json:"dropped_candidate_invariants,omitempty"`
	Vacuity     []string `json:"vacuity"`
	Contract    string   `json:"contract_at"`
}

type sample struct {
	Obligation string  `json:"obligation"`
	Kind       string  `json:"kind"`
	At         string  `json:"at"`
	What       string  `json:"what"`
	Result     string  `json:"result"`
	Solver     string  `json:"solver"`
	SmtBytes   int     `json:"smt_bytes"`
	Seconds    float64 `json:"seconds"`
}

func propertyPackages(prop string, P0 []string) []string { return P0 }

// packages that carry contracts, per property (keeps loading cheap); "./..." is the fallback
var propPkgs = map[string][]string{}

func cmdCheck(args []string) {
	fs := flag.NewFlagSet("check", flag.ExitOnError)
	repo := fs.String("repo", "/repo", "repository root")
	prop := fs.String("property", "", "property id")
	tier := fs.String("tier", "quick", "quick|thorough")
	timeout := fs.Int("timeout", 0, "solver timeout ms (default by tier)")
	_ = fs.Parse(args)
	if *prop == "" {
		fmt.Fprintln(os.Stderr, "check: --property required")
		os.Exit(2)
	}
	if t := os.Getenv("VERIF_TIER"); t == "quick" || t == "thorough" {
		*tier = t
	}
	seed, _ := strconv.Atoi(os.Getenv("VERIF_SEED"))
	start := time.Now()
	ms := *timeout
	if ms == 0 {
		ms = 20000
		if *tier == "thorough" {
			ms = 120000
		}
	}
	opt := solveOpts{timeoutMs: ms, first: 3000}
	code := runCheck(*repo, *prop, *tier, seed, opt, start)
	os.Exit(code)
}

type checkOutcome struct {
	res *FnResult
}

func runCheck(repo, prop, tier string, seed int, opt solveOpts, start time.Time) int {
	evPath := filepath.Join(verifRoot(), "evidence", prop+".json")
	_ = os.MkdirAll(filepath.Dir(evPath), 0o755)
	pats := []string{"./..."}
	P, err := loadProgram(repo, pats)
	if err != nil {
		// the tree does not build with the contracts: report as a violation of the check's precondition
		fmt.Printf("ENGINE-ERROR: cannot load %s: %v\n", repo, err)
		writeEvidence(evPath, prop, tier, seed, nil, nil, 0, 0, 0, nil, time.Since(start).Seconds(), []string{"load error: " + err.Error()}, 1)
		rp := writeReplayNote(prop, "load", "the repository does not compile together with the contract files (build tag verif), or a contract refers to a function that no longer exists", err.Error())
		fmt.Printf("VIOLATION property=%s replay=%s no-failing-input-found\n", prop, rp)
		return 1
	}
	loadS := time.Since(start).Seconds()
	kf := loadKnown()
	unclaimed := loadUnclaimed()
	var unclaimedSeen []string
	type job struct {
		fn *ssa.Function
		ct *Contract
	}
	var jobs []job
	for f, ct := range P.contracts {
		if ct.Trusted {
			continue
		}
		for _, p := range ct.Props {
			if p == prop {
				jobs = append(jobs, job{f, ct})
				break
			}
		}
	}
	sort.Slice(jobs, func(i, j int) bool { return funcDisplay(jobs[i].fn) < funcDisplay(jobs[j].fn) })
	if len(jobs) == 0 {
		fmt.Printf("ENGINE-ERROR: no function under contract serves property %s\n", prop)
		return 2
	}
	results := make([]*FnResult, len(jobs))
	var wg sync.WaitGroup
	fsem := make(chan struct{}, 6)
	for i, j := range jobs {
		wg.Add(1)
		fsem <- struct{}{}
		go func(i int, j job) {
			defer wg.Done()
			defer func() { <-fsem }()
			results[i] = verifyFn(P, j.fn, j.ct, opt)
		}(i, j)
	}
	wg.Wait()

	// classify
	violations := 0
	engineErrs := 0
	var fev []fnEvidence
	var samples []sample
	byBackend := map[string]int{}
	total, discharged, known := 0, 0, 0
	solverTime := 0.0
	trusted := map[string]bool{}
	var assumptions []string
	var slow []sample
	var knownLines []string
	var viol []string
	for _, r := range results {
		fe := fnEvidence{Function: r.Name, Grade: r.Grade, SolveS: round2(r.SolveTime), Notes: nonInlineNotes(r.Notes), Dropped: r.Dropped, Contract: shortWhere(r.Contract.Where)}
		if r.Panic != "" {
			engineErrs++
			fmt.Printf("ENGINE-ERROR: %s: %s\n", r.Name, firstLines(r.Panic, 3))
			rp := writeReplayNote(prop, r.Name+"/translate", "the verifier could not translate this function (construct outside the modelled subset or contract no longer matches the code)", r.Panic)
			viol = append(viol, fmt.Sprintf("VIOLATION property=%s replay=%s no-failing-input-found", prop, rp))
			violations++
			continue
		}
		for _, e := range r.SpecErrs {
			engineErrs++
			fmt.Printf("SPEC-ERROR: %s: %s\n", r.Name, e)
			rp := writeReplayNote(prop, r.Name+"/contract", "a contract clause no longer type-checks against the code (renamed or removed parameter/field): the obligation it stood for cannot be discharged", e)
			viol = append(viol, fmt.Sprintf("VIOLATION property=%s replay=%s no-failing-input-found", prop, rp))
			violations++
		}
		for _, p := range r.Probes {
			fe.Vacuity = append(fe.Vacuity, p.Name+"="+p.Result)
			if p.Result == "unsat" {
				engineErrs++
				fmt.Printf("VACUOUS: %s: %s\n", r.Name, p.Desc)
				rp := writeReplayNote(prop, r.Name+"/"+p.Name, "vacuity probe failed: "+p.Desc+" — every obligation of this function would be discharged vacuously", "")
				viol = append(viol, fmt.Sprintf("VIOLATION property=%s replay=%s no-failing-input-found", prop, rp))
				violations++
			}
		}
		for _, o := range r.Obls {
			if o.Kind == "inv-auto" {
				continue // candidate invariants are a proof aid, not a claim
			}
			if u := isUnclaimed(unclaimed, r.Name, o.Name); u != nil {
				unclaimedSeen = append(unclaimedSeen, fmt.Sprintf("%s/%s (%s): %s", r.Name, o.Name, o.Result, u.Reason))
				continue
			}
			total++
			fe.Obligations++
			s := sample{Obligation: r.Name + "/" + o.Name, Kind: o.Kind, At: describe(P.prog, o.Pos), What: o.Desc, Result: o.Result, Solver: o.Solver, SmtBytes: o.SmtSize, Seconds: round2(o.Time)}
			solverTime += o.Time
			if o.Result == "unsat" {
				discharged++
				fe.Discharged++
				byBackend[backendName(o.Solver)]++
				if len(samples) < 6 && (o.Kind == "post" || o.Kind == "inv-keep" || len(samples) < 2) {
					samples = append(samples, s)
				}
				if o.Time > 5 {
					slow = append(slow, s)
				}
				continue
			}
			// failed obligation
			if k := matchKnown(kf, prop, r.Name, o.Name); k != nil {
				known++
				fe.Known++
				total-- // known findings are not part of the claim
				fe.Obligations--
				knownLines = append(knownLines, fmt.Sprintf("KNOWN-FINDING: property=%s %s %s/%s: %s", prop, k.ID, r.Name, o.Name, k.What))
				continue
			}
			violations++
			rp, reproduced := writeViolation(P, repo, prop, r, o)
			line := fmt.Sprintf("VIOLATION property=%s replay=%s", prop, rp)
			if !reproduced {
				line += " no-failing-input-found"
			}
			viol = append(viol, line)
			fmt.Printf("FAILED-OBLIGATION: %s/%s (%s) at %s: %s\n", r.Name, o.Name, o.Result, describe(P.prog, o.Pos), o.Desc)
		}
		for _, t := range r.Trusted {
			trusted[t] = true
		}
		fev = append(fev, fe)
	}
	// lemmas over the contracts (pure SMT files under /verif/lemmas/<prop>_*.smt2 with an `expect:` header)
	lemmaEv := []map[string]any{}
	lfiles, _ := filepath.Glob(filepath.Join(verifRoot(), "lemmas", prop+"_*.smt2"))
	// ENGINE_*.smt2: validity of the arithmetic lemmas the VC generator itself adds as assumptions (checked with every property)
	efiles, _ := filepath.Glob(filepath.Join(verifRoot(), "lemmas", "ENGINE_*.smt2"))
	lfiles = append(lfiles, efiles...)
	sort.Strings(lfiles)
	for _, lf := range lfiles {
		src, err := os.ReadFile(lf)
		if err != nil {
			continue
		}
		expect := "unsat"
		if m := regexp.MustCompile(`expect:\s*(sat|unsat)`).FindSubmatch(src); m != nil {
			expect = string(m[1])
		}
		script := string(src)
		script = strings.Replace(script, "(check-sat)", "", 1)
		script = strings.Replace(script, "(set-logic ALL)", "", 1)
		name := strings.TrimSuffix(filepath.Base(lf), ".smt2")
		results := map[string]string{}
		ok := true
		answered := 0
		for _, sv := range []SolverCfg{solvers[0], solvers[1]} {
			r := runSolver(context.Background(), sv, script, 20000, true, false)
			results[sv.Name] = r.res
			if r.res == "sat" || r.res == "unsat" {
				answered++
				if r.res != expect {
					ok = false
				}
			}
		}
		if answered == 0 {
			ok = false
		}
		total++
		lemmaEv = append(lemmaEv, map[string]any{"lemma": name, "expect": expect, "results": results, "ok": ok})
		if ok {
			discharged++
			byBackend["lemma"]++
		} else {
			violations++
			rp := writeReplayNote(prop, "lemma/"+name, "lemma over the contracts: expected "+expect, fmt.Sprint(results))
			viol = append(viol, fmt.Sprintf("VIOLATION property=%s replay=%s no-failing-input-found", prop, rp))
			fmt.Printf("FAILED-OBLIGATION: lemma/%s expected %s got %v\n", name, expect, results)
		}
	}
	// bounded stand-ins (/verif/bounded/<prop>_*_test.go): executable checks of functions that could not be brought under
	// contract, run on the real code through a go test overlay. Labelled bounded; never counted as proved obligations.
	boundedEv := []map[string]any{}
	bfiles, _ := filepath.Glob(filepath.Join(verifRoot(), "bounded", prop+"_*_test.go"))
	sort.Strings(bfiles)
	for _, bf := range bfiles {
		src, _ := os.ReadFile(bf)
		bound := ""
		if m := regexp.MustCompile(`(?m)^// bound: (.*)$`).FindSubmatch(src); m != nil {
			bound = string(m[1])
		}
		fnName := ""
		if m := regexp.MustCompile(`(?m)^// function: (.*)$`).FindSubmatch(src); m != nil {
			fnName = string(m[1])
		}
		t0 := time.Now()
		rr := runReplay(repo, bf)
		ev := map[string]any{"file": bf, "function": fnName, "bound": bound, "seconds": round2(time.Since(t0).Seconds()), "label": "bounded (not a proof)"}
		switch {
		case rr.Err != "":
			ev["result"] = "error: " + rr.Err
			violations++
			rp := writeReplayNote(prop, "bounded/"+filepath.Base(bf), "the bounded check could not be run", rr.Err+"\n"+rr.Output)
			viol = append(viol, fmt.Sprintf("VIOLATION property=%s replay=%s no-failing-input-found", prop, rp))
			fmt.Printf("FAILED-OBLIGATION: bounded/%s could not be run: %s\n", filepath.Base(bf), rr.Err)
		case rr.Reproduced:
			ev["result"] = "violated"
			violations++
			viol = append(viol, fmt.Sprintf("VIOLATION property=%s replay=%s", prop, bf))
			fmt.Printf("FAILED-OBLIGATION: bounded/%s (%s) fails on the real code within the bound: %s\n", filepath.Base(bf), fnName, bound)
		default:
			ev["result"] = "held within the bound"
		}
		boundedEv = append(boundedEv, ev)
	}
	// one KNOWN-FINDING line per finding id
	seenK := map[string]bool{}
	for _, l := range knownLines {
		if !seenK[l] {
			seenK[l] = true
			fmt.Println(l)
		}
	}
	for _, v := range viol {
		fmt.Println(v)
	}
	var tb []string
	for t := range trusted {
		tb = append(tb, t)
	}
	sort.Strings(tb)
	tb = append([]string{
		"go/packages + go/ssa (golang.org/x/tools v0.29.0) construction of SSA from /repo's working tree",
		"this VC generator (vgo): SSA semantics, flat typed-slot memory, loop cutting, call handling",
		"SMT solvers z3 5.1.0, z3 4.8.12, cvc5 1.0.3",
		"target linux/amd64: int/uint/uintptr are 64-bit; slices hold at most 2^48 elements",
		"run-time checks modelled: bounds, nil dereference, integer division by zero, negative shift, makeslice range, failed type assertion, explicit panic",
	}, tb...)
	assumptions = append(assumptions, propertyAssumptions(prop)...)
	sort.Slice(slow, func(i, j int) bool { return slow[i].Seconds > slow[j].Seconds })
	if len(slow) > 5 {
		slow = slow[:5]
	}
	extra := map[string]any{
		"functions_under_contract": fev,
		"by_backend":               byBackend,
		"solver_time_s":            round2(solverTime),
		"slowest":                  slow,
		"known_findings":           known,
		"not_decided":              propertyNotDecided(prop),
		"engine_errors":            engineErrs,
		"unclaimed_obligations":    unclaimedSeen,
		"lemmas":                   lemmaEv,
		"bounded_checks":           boundedEv,
		"load_s":                   round2(loadS),
	}
	writeEvidence(evPath, prop, tier, seed, samples, tb, total, discharged, violations, extra, time.Since(start).Seconds(), assumptions, violations)
	fmt.Printf("property %s: %d functions under contract, %d obligations, %d discharged, %d known findings, %d violations, %.1fs\n", prop, len(jobs), total, discharged, known, violations, time.Since(start).Seconds())
	if violations > 0 {
		return 1
	}
	return 0
}

func backendName(s string) string {
	if i := strings.Index(s, " "); i > 0 {
		return s[:i]
	}
	return s
}

func nonInlineNotes(ns []string) []string {
	var out []string
	for _, n := range ns {
		if !strings.HasPrefix(n, "inlined ") {
			out = append(out, n)
		}
	}
	return out
}

func shortWhere(w string) string {
	return strings.TrimPrefix(w, "/repo/")
}

func round2(x float64) float64 { return float64(int(x*100+0.5)) / 100 }

func writeEvidence(path, prop, tier string, seed int, samples []sample, trusted []string, total, discharged, violations int, extra map[string]any, wall float64, assumptions []string, nviol int) {
	cov := map[string]any{
		"obligations":  total,
		"discharged":   discharged,
		"checker_cmd":  fmt.Sprintf("/verif/bin/vgo check --property %s --tier %s", prop, tier),
		"trusted_base": trusted,
		"samples":      samples,
		"explanation":  "Every obligation is a verification condition generated from go/ssa of the function in /repo's working tree under the contract in zz_verif_contracts.go (build tag verif); discharged means an SMT solver (or the term simplifier) proved it for all inputs. Obligations of known findings are listed separately and not counted.",
	}
	if samples == nil {
		cov["samples"] = []sample{}
	}
	if trusted == nil {
		cov["trusted_base"] = []string{}
	}
	for k, v := range extra {
		cov[k] = v
	}
	ev := map[string]any{
		"property_id": prop,
		"tier":        tier,
		"seed":        seed,
		"level":       "proof",
		"coverage":    cov,
		"assumptions": assumptions,
		"wall_s":      round2(wall),
		"violations":  nviol,
	}
	if assumptions == nil {
		ev["assumptions"] = []string{}
	}
	b, _ := json.MarshalIndent(ev, "", " ")
	_ = os.WriteFile(path, b, 0o644)
}

func replayDir() string {
	d := filepath.Join(verifRoot(), "work", "replays")
	_ = os.MkdirAll(d, 0o755)
	return d
}

func writeReplayNote(prop, what, why, output string) string {
	p := filepath.Join(replayDir(), sanitize(prop+"__"+what)+".json")
	b, _ := json.MarshalIndent(map[string]any{"property": prop, "failed": what, "why": why, "verifier_output": output}, "", " ")
	_ = os.WriteFile(p, b, 0o644)
	return p
}

// writeViolation writes the replay file of a failed obligation; tries an executable replay when a model exists.
func writeViolation(P *Program, repo, prop string, r *FnResult, o *Obligation) (string, bool) {
	base := filepath.Join(replayDir(), sanitize(prop+"__"+r.Name+"__"+o.Name))
	// executable replay from the model, when the function's shape is supported
	if o.Result == "sat" {
		if src, ok := genReplay(P, r, o, prop); ok {
			path := base + "_test.go"
			_ = os.WriteFile(path, []byte(src), 0o644)
			rr := runReplay(repo, path)
			if rr.Reproduced {
				return path, true
			}
			// keep the attempt next to the note
			_ = os.WriteFile(base+".attempt.txt", []byte(rr.Cmd+"\n"+rr.Output+"\n"+rr.Err), 0o644)
		}
	}
	note := map[string]any{
		"property":        prop,
		"function":        r.Name,
		"obligation":      o.Name,
		"kind":            o.Kind,
		"at":              describe(P.prog, o.Pos),
		"what":            o.Desc,
		"solver_result":   o.Result,
		"candidate_model": o.Candidate,
		"solver_output":   o.Output,
		"model":           o.Model,
		"note":            "the obligation is discharged on the unchanged tree; on this tree the solvers refute it or cannot prove it. No failing input could be replayed on the real code automatically.",
	}
	b, _ := json.MarshalIndent(note, "", " ")
	path := base + ".json"
	_ = os.WriteFile(path, b, 0o644)
	return path, false
}

func propertyAssumptions(prop string) []string { return propAssumptions[prop] }
func propertyNotDecided(prop string) []string  { return propNotDecided[prop] }
