package main

// Term DAG with hash-consing, light simplification and SMT-LIB printing.
// One *TF (term factory) per verified function; no sharing across goroutines.

import (
	"fmt"
	"sync"
	"math/big"
	"sort"
	"strings"
)

type SortKind int

const (
	KBool SortKind = iota
	KInt
	KBV
	KArr
)

type Sort struct {
	K    SortKind
	W    int
	Idx  *Sort
	Elem *Sort
	str  string
}

var sortTab = map[string]*Sort{}
var sortMu sync.Mutex

func mkSort(s *Sort) *Sort {
	switch s.K {
	case KBool:
		s.str = "Bool"
	case KInt:
		s.str = "Int"
	case KBV:
		s.str = fmt.Sprintf("(_ BitVec %d)", s.W)
	case KArr:
		s.str = fmt.Sprintf("(Array %s %s)", s.Idx.str, s.Elem.str)
	}
	sortMu.Lock()
	defer sortMu.Unlock()
	if o, ok := sortTab[s.str]; ok {
		return o
	}
	sortTab[s.str] = s
	return s
}

var (
	SBool = mkSort(&Sort{K: KBool})
	SInt  = mkSort(&Sort{K: KInt})
	S8    = BVS(8)
	S16   = BVS(16)
	S32   = BVS(32)
	S64   = BVS(64)
)

func BVS(w int) *Sort            { return mkSort(&Sort{K: KBV, W: w}) }
func ArrS(idx, elem *Sort) *Sort { return mkSort(&Sort{K: KArr, Idx: idx, Elem: elem}) }
func (s *Sort) String() string   { return s.str }

type Term struct {
	Op    string
	Args  []*Term
	S     *Sort
	Name  string   // var / uf name
	Val   *big.Int // bv / int const
	A, B  int      // extract hi lo, ext amount
	Bound []*Term  // quantifier bound vars
	Pats  [][]*Term
	id    int
}

type TF struct {
	Distinct func(a, b *Term) bool // optional: semantic disequality known to the client (region ages)
	Frame    func(arr, idx *Term) *Term // optional: select(arr, idx) is known to equal select(result, idx)
	DistinctIdx func(a, b *Term) bool   // optional: disequality usable only for skipping a store below a select
	maxInst int
	tab   map[string]*Term
	n     int
	nvar  int
	ufs   map[string]string // uf name -> declaration
	ufOrd []string
}

func NewTF() *TF { return &TF{tab: map[string]*Term{}, ufs: map[string]string{}} }

func (f *TF) intern(t *Term) *Term {
	var sb strings.Builder
	sb.WriteString(t.Op)
	sb.WriteByte('|')
	sb.WriteString(t.S.str)
	sb.WriteByte('|')
	sb.WriteString(t.Name)
	if t.Val != nil {
		sb.WriteByte('#')
		sb.WriteString(t.Val.String())
	}
	if t.A != 0 || t.B != 0 {
		fmt.Fprintf(&sb, "@%d,%d", t.A, t.B)
	}
	for _, a := range t.Args {
		fmt.Fprintf(&sb, " %d", a.id)
	}
	for _, b := range t.Bound {
		fmt.Fprintf(&sb, " b%d", b.id)
	}
	k := sb.String()
	if o, ok := f.tab[k]; ok {
		return o
	}
	f.n++
	t.id = f.n
	f.tab[k] = t
	return t
}

// ---------- leaves

func (f *TF) Var(name string, s *Sort) *Term {
	return f.intern(&Term{Op: "var", Name: name, S: s})
}

func (f *TF) Fresh(hint string, s *Sort) *Term {
	f.nvar++
	return f.Var(fmt.Sprintf("%s!%d", sanitize(hint), f.nvar), s)
}

func (f *TF) True() *Term  { return f.intern(&Term{Op: "true", S: SBool}) }
func (f *TF) False() *Term { return f.intern(&Term{Op: "false", S: SBool}) }
func (f *TF) Bool(b bool) *Term {
	if b {
		return f.True()
	}
	return f.False()
}

func norm(w int, v *big.Int) *big.Int {
	m := new(big.Int).Lsh(big.NewInt(1), uint(w))
	x := new(big.Int).Mod(v, m)
	return x
}

func (f *TF) BV(w int, v *big.Int) *Term {
	return f.intern(&Term{Op: "bv", S: BVS(w), Val: norm(w, v)})
}
func (f *TF) BVi(w int, v int64) *Term   { return f.BV(w, big.NewInt(v)) }
func (f *TF) BVu(w int, v uint64) *Term  { return f.BV(w, new(big.Int).SetUint64(v)) }
func (f *TF) IntC(v int64) *Term {
	if ghostBV {
		return f.BVi(64, v)
	}
	return f.intern(&Term{Op: "int", S: SInt, Val: big.NewInt(v)})
}
func (f *TF) IntBig(v *big.Int) *Term {
	if ghostBV {
		return f.BV(64, v)
	}
	return f.intern(&Term{Op: "int", S: SInt, Val: new(big.Int).Set(v)})
}

// ghostBV: ghost sequence indices are 64-bit vectors (signed, assumed not to wrap) instead of mathematical integers.
var ghostBV = false

func GhostIdxSort() *Sort {
	if ghostBV {
		return S64
	}
	return SInt
}
func (t *Term) IsConst() bool            { return t.Op == "bv" || t.Op == "int" || t.Op == "true" || t.Op == "false" }
func (t *Term) IsTrue() bool             { return t.Op == "true" }
func (t *Term) IsFalse() bool            { return t.Op == "false" }
func (t *Term) Width() int               { return t.S.W }
func signedVal(w int, v *big.Int) *big.Int {
	h := new(big.Int).Lsh(big.NewInt(1), uint(w-1))
	if v.Cmp(h) >= 0 {
		return new(big.Int).Sub(v, new(big.Int).Lsh(big.NewInt(1), uint(w)))
	}
	return v
}

// ---------- generic application

func (f *TF) mk(op string, s *Sort, args ...*Term) *Term {
	return f.intern(&Term{Op: op, S: s, Args: args})
}

// UF application; declares the function on first use.
func (f *TF) App(name string, ret *Sort, args ...*Term) *Term {
	if _, ok := f.ufs[name]; !ok {
		var as []string
		for _, a := range args {
			as = append(as, a.S.str)
		}
		f.ufs[name] = fmt.Sprintf("(declare-fun %s (%s) %s)", name, strings.Join(as, " "), ret.str)
		f.ufOrd = append(f.ufOrd, name)
	}
	return f.intern(&Term{Op: "app", Name: name, S: ret, Args: args})
}

// ---------- booleans

func (f *TF) Not(a *Term) *Term {
	switch a.Op {
	case "true":
		return f.False()
	case "false":
		return f.True()
	case "not":
		return a.Args[0]
	}
	return f.mk("not", SBool, a)
}

func (f *TF) And(as ...*Term) *Term {
	var out []*Term
	seen := map[int]bool{}
	for _, a := range as {
		if a.IsFalse() {
			return a
		}
		if a.IsTrue() {
			continue
		}
		if a.Op == "and" {
			for _, b := range a.Args {
				if !seen[b.id] {
					seen[b.id] = true
					out = append(out, b)
				}
			}
			continue
		}
		if !seen[a.id] {
			seen[a.id] = true
			out = append(out, a)
		}
	}
	for _, a := range out {
		if a.Op == "not" && seen[a.Args[0].id] {
			return f.False()
		}
	}
	switch len(out) {
	case 0:
		return f.True()
	case 1:
		return out[0]
	}
	return f.mk("and", SBool, out...)
}

func (f *TF) Or(as ...*Term) *Term {
	var out []*Term
	seen := map[int]bool{}
	for _, a := range as {
		if a.IsTrue() {
			return a
		}
		if a.IsFalse() {
			continue
		}
		if a.Op == "or" {
			for _, b := range a.Args {
				if !seen[b.id] {
					seen[b.id] = true
					out = append(out, b)
				}
			}
			continue
		}
		if !seen[a.id] {
			seen[a.id] = true
			out = append(out, a)
		}
	}
	for _, a := range out {
		if a.Op == "not" && seen[a.Args[0].id] {
			return f.True()
		}
	}
	switch len(out) {
	case 0:
		return f.False()
	case 1:
		return out[0]
	}
	return f.mk("or", SBool, out...)
}

func (f *TF) Implies(a, b *Term) *Term { return f.Or(f.Not(a), b) }

func (f *TF) Ite(c, a, b *Term) *Term {
	if c.IsTrue() {
		return a
	}
	if c.IsFalse() {
		return b
	}
	if a == b {
		return a
	}
	if a.S != b.S {
		panic(fmt.Sprintf("ite sort mismatch %s vs %s", a.S, b.S))
	}
	if a.S == SBool {
		if a.IsTrue() && b.IsFalse() {
			return c
		}
		if a.IsFalse() && b.IsTrue() {
			return f.Not(c)
		}
		if a.IsTrue() {
			return f.Or(c, b)
		}
		if b.IsFalse() {
			return f.And(c, a)
		}
		if a.IsFalse() {
			return f.And(f.Not(c), b)
		}
		if b.IsTrue() {
			return f.Or(f.Not(c), a)
		}
	}
	if c.Op == "not" {
		return f.Ite(c.Args[0], b, a)
	}
	return f.mk("ite", a.S, c, a, b)
}

// splitAdd decomposes t into base + const (bit-vector).
func splitAdd(t *Term) (*Term, *big.Int) {
	if t.Op == "bv" {
		return nil, t.Val
	}
	if t.Op == "bvadd" && len(t.Args) == 2 && t.Args[1].Op == "bv" {
		return t.Args[0], t.Args[1].Val
	}
	return t, big.NewInt(0)
}

// provablyDistinct: syntactic disequality check (plus the client's hint).
func (f *TF) provablyDistinct(a, b *Term) bool {
	if a == b {
		return false
	}
	if f.Distinct != nil && a.S.K == KBV && f.Distinct(a, b) {
		return true
	}
	if a.S.K == KBV {
		ba, ca := splitAdd(a)
		bb, cb := splitAdd(b)
		if ba == bb && ca.Cmp(cb) != 0 {
			return true
		}
	}
	if a.Op == "int" && b.Op == "int" {
		return a.Val.Cmp(b.Val) != 0
	}
	if a.Op == "+" && b.Op != "+" && len(a.Args) == 2 && a.Args[0] == b && a.Args[1].Op == "int" && a.Args[1].Val.Sign() != 0 {
		return true
	}
	if b.Op == "+" && a.Op != "+" && len(b.Args) == 2 && b.Args[0] == a && b.Args[1].Op == "int" && b.Args[1].Val.Sign() != 0 {
		return true
	}
	if a.Op == "+" && b.Op == "+" && len(a.Args) == 2 && len(b.Args) == 2 && a.Args[0] == b.Args[0] && a.Args[1].Op == "int" && b.Args[1].Op == "int" {
		return a.Args[1].Val.Cmp(b.Args[1].Val) != 0
	}
	return false
}

func (f *TF) Eq(a, b *Term) *Term {
	if a == b {
		return f.True()
	}
	if a.S != b.S {
		panic(fmt.Sprintf("eq sort mismatch %s vs %s (%s, %s)", a.S, b.S, f.Show(a), f.Show(b)))
	}
	if a.IsConst() && b.IsConst() {
		if a.S == SBool {
			return f.Bool(a.Op == b.Op)
		}
		return f.Bool(a.Val.Cmp(b.Val) == 0)
	}
	if f.provablyDistinct(a, b) {
		return f.False()
	}
	if a.S == SBool {
		if a.IsTrue() {
			return b
		}
		if b.IsTrue() {
			return a
		}
		if a.IsFalse() {
			return f.Not(b)
		}
		if b.IsFalse() {
			return f.Not(a)
		}
	}
	if a.id > b.id {
		a, b = b, a
	}
	return f.mk("=", SBool, a, b)
}

func (f *TF) Neq(a, b *Term) *Term { return f.Not(f.Eq(a, b)) }

// ---------- bit-vectors

func (f *TF) bin(op string, a, b *Term) *Term {
	if a.S != b.S {
		panic(fmt.Sprintf("%s sort mismatch %s vs %s: %s , %s", op, a.S, b.S, f.Show(a), f.Show(b)))
	}
	w := a.S.W
	if a.Op == "bv" && b.Op == "bv" {
		x, y := a.Val, b.Val
		sx, sy := signedVal(w, x), signedVal(w, y)
		r := new(big.Int)
		switch op {
		case "bvadd":
			return f.BV(w, r.Add(x, y))
		case "bvsub":
			return f.BV(w, r.Sub(x, y))
		case "bvmul":
			return f.BV(w, r.Mul(x, y))
		case "bvand":
			return f.BV(w, r.And(x, y))
		case "bvor":
			return f.BV(w, r.Or(x, y))
		case "bvxor":
			return f.BV(w, r.Xor(x, y))
		case "bvudiv":
			if y.Sign() != 0 {
				return f.BV(w, r.Div(x, y))
			}
		case "bvurem":
			if y.Sign() != 0 {
				return f.BV(w, r.Mod(x, y))
			}
		case "bvsdiv":
			if y.Sign() != 0 {
				return f.BV(w, r.Quo(sx, sy))
			}
		case "bvsrem":
			if y.Sign() != 0 {
				return f.BV(w, r.Rem(sx, sy))
			}
		case "bvshl":
			if y.Cmp(big.NewInt(int64(w))) >= 0 {
				return f.BVi(w, 0)
			}
			return f.BV(w, r.Lsh(x, uint(y.Int64())))
		case "bvlshr":
			if y.Cmp(big.NewInt(int64(w))) >= 0 {
				return f.BVi(w, 0)
			}
			return f.BV(w, r.Rsh(x, uint(y.Int64())))
		case "bvashr":
			sh := uint(w)
			if y.Cmp(big.NewInt(int64(w))) < 0 {
				sh = uint(y.Int64())
			}
			return f.BV(w, r.Rsh(sx, sh))
		}
	}
	switch op {
	case "bvadd":
		if a.Op == "bv" {
			a, b = b, a
		}
		if b.Op == "bv" {
			if b.Val.Sign() == 0 {
				return a
			}
			if a.Op == "bvadd" && a.Args[1].Op == "bv" {
				return f.bin("bvadd", a.Args[0], f.BV(w, new(big.Int).Add(a.Args[1].Val, b.Val)))
			}
		}
	case "bvsub":
		if b.Op == "bv" {
			return f.bin("bvadd", a, f.BV(w, new(big.Int).Neg(b.Val)))
		}
		if a == b {
			return f.BVi(w, 0)
		}
		// (x + c) - x = c
		if ba, ca := splitAdd(a); ba == b {
			return f.BV(w, ca)
		}
		// (x + y) - x = y
		if a.Op == "bvadd" && len(a.Args) == 2 {
			if a.Args[0] == b {
				return a.Args[1]
			}
			if a.Args[1] == b {
				return a.Args[0]
			}
		}
		if ba, ca := splitAdd(a); ba != nil {
			if bb, cb := splitAdd(b); bb == ba {
				return f.BV(w, new(big.Int).Sub(ca, cb))
			}
		}
	case "bvmul":
		if a.Op == "bv" {
			a, b = b, a
		}
		if b.Op == "bv" {
			if b.Val.Sign() == 0 {
				return b
			}
			if b.Val.Cmp(big.NewInt(1)) == 0 {
				return a
			}
		}
	case "bvand":
		if a == b {
			return a
		}
		if a.Op == "bv" {
			a, b = b, a
		}
		if b.Op == "bv" && b.Val.Sign() == 0 {
			return b
		}
	case "bvor", "bvxor":
		if a.Op == "bv" {
			a, b = b, a
		}
		if b.Op == "bv" && b.Val.Sign() == 0 {
			return a
		}
	case "bvshl", "bvlshr", "bvashr":
		if b.Op == "bv" && b.Val.Sign() == 0 {
			return a
		}
	}
	return f.mk(op, a.S, a, b)
}

func (f *TF) Add(a, b *Term) *Term  { return f.bin("bvadd", a, b) }
func (f *TF) Sub(a, b *Term) *Term  { return f.bin("bvsub", a, b) }
func (f *TF) Mul(a, b *Term) *Term  { return f.bin("bvmul", a, b) }
func (f *TF) BAnd(a, b *Term) *Term { return f.bin("bvand", a, b) }
func (f *TF) BOr(a, b *Term) *Term  { return f.bin("bvor", a, b) }
func (f *TF) BXor(a, b *Term) *Term { return f.bin("bvxor", a, b) }
func (f *TF) UDiv(a, b *Term) *Term { return f.bin("bvudiv", a, b) }
func (f *TF) URem(a, b *Term) *Term { return f.bin("bvurem", a, b) }
func (f *TF) SDiv(a, b *Term) *Term { return f.bin("bvsdiv", a, b) }
func (f *TF) SRem(a, b *Term) *Term { return f.bin("bvsrem", a, b) }
func (f *TF) Shl(a, b *Term) *Term  { return f.bin("bvshl", a, b) }
func (f *TF) LShr(a, b *Term) *Term { return f.bin("bvlshr", a, b) }
func (f *TF) AShr(a, b *Term) *Term { return f.bin("bvashr", a, b) }
func (f *TF) AddC(a *Term, c int64) *Term {
	if c == 0 {
		return a
	}
	return f.Add(a, f.BVi(a.S.W, c))
}

func (f *TF) BNot(a *Term) *Term {
	if a.Op == "bv" {
		return f.BV(a.S.W, new(big.Int).Not(a.Val))
	}
	return f.mk("bvnot", a.S, a)
}
func (f *TF) Neg(a *Term) *Term {
	if a.Op == "bv" {
		return f.BV(a.S.W, new(big.Int).Neg(a.Val))
	}
	return f.mk("bvneg", a.S, a)
}

func (f *TF) cmp(op string, a, b *Term) *Term {
	if a.S != b.S {
		panic(fmt.Sprintf("%s sort mismatch %s vs %s: %s, %s", op, a.S, b.S, f.Show(a), f.Show(b)))
	}
	w := a.S.W
	if a.Op == "bv" && b.Op == "bv" {
		x, y := a.Val, b.Val
		if op[2] == 's' {
			x, y = signedVal(w, x), signedVal(w, y)
		}
		c := x.Cmp(y)
		switch op[3:] {
		case "lt":
			return f.Bool(c < 0)
		case "le":
			return f.Bool(c <= 0)
		case "gt":
			return f.Bool(c > 0)
		case "ge":
			return f.Bool(c >= 0)
		}
	}
	if a == b {
		switch op[3:] {
		case "lt", "gt":
			return f.False()
		default:
			return f.True()
		}
	}
	// normalise gt/ge to lt/le
	switch op {
	case "bvugt":
		return f.cmp("bvult", b, a)
	case "bvuge":
		return f.cmp("bvule", b, a)
	case "bvsgt":
		return f.cmp("bvslt", b, a)
	case "bvsge":
		return f.cmp("bvsle", b, a)
	}
	if op == "bvule" && a.Op == "bv" && a.Val.Sign() == 0 {
		return f.True()
	}
	if op == "bvult" && b.Op == "bv" && b.Val.Sign() == 0 {
		return f.False()
	}
	return f.mk(op, SBool, a, b)
}
func (f *TF) ULt(a, b *Term) *Term { return f.cmp("bvult", a, b) }
func (f *TF) ULe(a, b *Term) *Term { return f.cmp("bvule", a, b) }
func (f *TF) SLt(a, b *Term) *Term { return f.cmp("bvslt", a, b) }
func (f *TF) SLe(a, b *Term) *Term { return f.cmp("bvsle", a, b) }

func (f *TF) Extract(hi, lo int, a *Term) *Term {
	if lo == 0 && hi == a.S.W-1 {
		return a
	}
	if a.Op == "bv" {
		v := new(big.Int).Rsh(a.Val, uint(lo))
		return f.BV(hi-lo+1, v)
	}
	if a.Op == "concat" {
		lw := a.Args[1].S.W
		if hi < lw {
			return f.Extract(hi, lo, a.Args[1])
		}
		if lo >= lw {
			return f.Extract(hi-lw, lo-lw, a.Args[0])
		}
	}
	if (a.Op == "zext" || a.Op == "sext") && hi < a.Args[0].S.W {
		return f.Extract(hi, lo, a.Args[0])
	}
	if a.Op == "extract" {
		return f.Extract(hi+a.B, lo+a.B, a.Args[0])
	}
	return f.intern(&Term{Op: "extract", S: BVS(hi - lo + 1), Args: []*Term{a}, A: hi, B: lo})
}

func (f *TF) Concat(a, b *Term) *Term {
	if a.Op == "bv" && b.Op == "bv" {
		v := new(big.Int).Lsh(a.Val, uint(b.S.W))
		v.Or(v, b.Val)
		return f.BV(a.S.W+b.S.W, v)
	}
	// concat(extract(hi,m+1,x), extract(m,lo,x)) = extract(hi,lo,x)
	if a.Op == "extract" && b.Op == "extract" && a.Args[0] == b.Args[0] && a.B == b.A+1 {
		return f.Extract(a.A, b.B, a.Args[0])
	}
	return f.mk("concat", BVS(a.S.W+b.S.W), a, b)
}

func (f *TF) ZExt(a *Term, to int) *Term {
	n := to - a.S.W
	if n == 0 {
		return a
	}
	if n < 0 {
		return f.Extract(to-1, 0, a)
	}
	if a.Op == "bv" {
		return f.BV(to, a.Val)
	}
	if a.Op == "zext" {
		return f.ZExt(a.Args[0], to)
	}
	return f.intern(&Term{Op: "zext", S: BVS(to), Args: []*Term{a}, A: n})
}

func (f *TF) SExt(a *Term, to int) *Term {
	n := to - a.S.W
	if n == 0 {
		return a
	}
	if n < 0 {
		return f.Extract(to-1, 0, a)
	}
	if a.Op == "bv" {
		return f.BV(to, signedVal(a.S.W, a.Val))
	}
	if a.Op == "zext" {
		return f.ZExt(a.Args[0], to)
	}
	return f.intern(&Term{Op: "sext", S: BVS(to), Args: []*Term{a}, A: n})
}

func (f *TF) Ext(a *Term, to int, signed bool) *Term {
	if signed {
		return f.SExt(a, to)
	}
	return f.ZExt(a, to)
}

// ---------- ints (ghost sequence indices)

func (f *TF) IAdd(a, b *Term) *Term {
	if ghostBV {
		return f.Add(a, b)
	}
	if a.Op == "int" && b.Op == "int" {
		return f.IntBig(new(big.Int).Add(a.Val, b.Val))
	}
	if a.Op == "int" {
		a, b = b, a
	}
	if b.Op == "int" {
		if b.Val.Sign() == 0 {
			return a
		}
		if a.Op == "+" && len(a.Args) == 2 && a.Args[1].Op == "int" {
			return f.IAdd(a.Args[0], f.IntBig(new(big.Int).Add(a.Args[1].Val, b.Val)))
		}
	}
	return f.mk("+", SInt, a, b)
}
func (f *TF) ISub(a, b *Term) *Term {
	if ghostBV {
		return f.Sub(a, b)
	}
	if b.Op == "int" {
		return f.IAdd(a, f.IntBig(new(big.Int).Neg(b.Val)))
	}
	if a == b {
		return f.IntC(0)
	}
	return f.mk("-", SInt, a, b)
}
func (f *TF) ILe(a, b *Term) *Term {
	if ghostBV {
		return f.SLe(a, b)
	}
	if a.Op == "int" && b.Op == "int" {
		return f.Bool(a.Val.Cmp(b.Val) <= 0)
	}
	if a == b {
		return f.True()
	}
	return f.mk("<=", SBool, a, b)
}
func (f *TF) ILt(a, b *Term) *Term {
	if ghostBV {
		return f.SLt(a, b)
	}
	if a.Op == "int" && b.Op == "int" {
		return f.Bool(a.Val.Cmp(b.Val) < 0)
	}
	if a == b {
		return f.False()
	}
	return f.mk("<", SBool, a, b)
}

// ---------- arrays

func (f *TF) Select(a, i *Term) *Term {
	if a.S.K != KArr || a.S.Idx != i.S {
		panic(fmt.Sprintf("select sort mismatch: %s [%s]", a.S, i.S))
	}
	for a.Op == "store" {
		if a.Args[1] == i {
			return a.Args[2]
		}
		if f.provablyDistinct(a.Args[1], i) || (f.DistinctIdx != nil && a.Args[1].S.K == KBV && f.DistinctIdx(a.Args[1], i)) {
			a = a.Args[0]
			continue
		}
		break
	}
	if a.Op == "constarr" {
		return a.Args[0]
	}
	if a.Op == "var" && f.Frame != nil {
		if o := f.Frame(a, i); o != nil {
			return f.Select(o, i)
		}
	}
	if a.Op == "ite" {
		// push select into ite only when both branches resolve cheaply
		x, y := a.Args[1], a.Args[2]
		if (x.Op == "store" && x.Args[1] == i) || (y.Op == "store" && y.Args[1] == i) {
			return f.Ite(a.Args[0], f.Select(x, i), f.Select(y, i))
		}
	}
	return f.mk("select", a.S.Elem, a, i)
}

func (f *TF) Store(a, i, v *Term) *Term {
	if a.S.K != KArr || a.S.Idx != i.S || a.S.Elem != v.S {
		panic(fmt.Sprintf("store sort mismatch: %s [%s] := %s", a.S, i.S, v.S))
	}
	if a.Op == "store" && a.Args[1] == i {
		a = a.Args[0]
	}
	// store(a, i, select(a, i)) = a
	if v.Op == "select" && v.Args[0] == a && v.Args[1] == i {
		return a
	}
	return f.mk("store", a.S, a, i, v)
}

func (f *TF) ConstArr(s *Sort, v *Term) *Term {
	return f.intern(&Term{Op: "constarr", S: s, Args: []*Term{v}})
}

// ---------- quantifiers

func (f *TF) Forall(bound []*Term, body *Term, pats ...[]*Term) *Term {
	if body.IsTrue() {
		return body
	}
	if len(bound) == 0 {
		return body
	}
	t := f.intern(&Term{Op: "forall", S: SBool, Args: []*Term{body}, Bound: bound})
	if len(pats) > 0 && t.Pats == nil {
		t.Pats = pats
	}
	return t
}
func (f *TF) Exists(bound []*Term, body *Term) *Term {
	if len(bound) == 0 {
		return body
	}
	return f.intern(&Term{Op: "exists", S: SBool, Args: []*Term{body}, Bound: bound})
}

// ---------- substitution (used for contract instantiation of bound vars)

func (f *TF) Subst(t *Term, m map[*Term]*Term) *Term {
	memo := map[*Term]*Term{}
	var rec func(t *Term) *Term
	rec = func(t *Term) *Term {
		if r, ok := m[t]; ok {
			return r
		}
		if len(t.Args) == 0 {
			return t
		}
		if r, ok := memo[t]; ok {
			return r
		}
		args := make([]*Term, len(t.Args))
		ch := false
		for i, a := range t.Args {
			args[i] = rec(a)
			if args[i] != a {
				ch = true
			}
		}
		r := t
		if ch {
			r = f.rebuild(t, args)
		}
		memo[t] = r
		return r
	}
	return rec(t)
}

func (f *TF) rebuild(t *Term, a []*Term) *Term {
	switch t.Op {
	case "not":
		return f.Not(a[0])
	case "and":
		return f.And(a...)
	case "or":
		return f.Or(a...)
	case "ite":
		return f.Ite(a[0], a[1], a[2])
	case "=":
		return f.Eq(a[0], a[1])
	case "bvadd", "bvsub", "bvmul", "bvand", "bvor", "bvxor", "bvudiv", "bvurem", "bvsdiv", "bvsrem", "bvshl", "bvlshr", "bvashr":
		return f.bin(t.Op, a[0], a[1])
	case "bvult", "bvule", "bvslt", "bvsle":
		return f.cmp(t.Op, a[0], a[1])
	case "bvnot":
		return f.BNot(a[0])
	case "bvneg":
		return f.Neg(a[0])
	case "extract":
		return f.Extract(t.A, t.B, a[0])
	case "concat":
		return f.Concat(a[0], a[1])
	case "zext":
		return f.ZExt(a[0], t.S.W)
	case "sext":
		return f.SExt(a[0], t.S.W)
	case "select":
		return f.Select(a[0], a[1])
	case "store":
		return f.Store(a[0], a[1], a[2])
	case "+":
		return f.IAdd(a[0], a[1])
	case "-":
		return f.ISub(a[0], a[1])
	case "<=":
		return f.ILe(a[0], a[1])
	case "<":
		return f.ILt(a[0], a[1])
	case "forall":
		return f.Forall(t.Bound, a[0], t.Pats...)
	case "exists":
		return f.Exists(t.Bound, a[0])
	}
	return f.intern(&Term{Op: t.Op, S: t.S, Name: t.Name, Val: t.Val, A: t.A, B: t.B, Args: a, Bound: t.Bound})
}

// ---------- printing

func sanitize(s string) string {
	return strings.Map(func(r rune) rune {
		if (r >= 'a' && r <= 'z') || (r >= 'A' && r <= 'Z') || (r >= '0' && r <= '9') || r == '_' || r == '.' || r == '!' {
			return r
		}
		return '_'
	}, s)
}

func bvLit(w int, v *big.Int) string {
	if w%4 == 0 {
		s := v.Text(16)
		return "#x" + strings.Repeat("0", w/4-len(s)) + s
	}
	return fmt.Sprintf("(_ bv%s %d)", v.String(), w)
}

// Show prints a term inline (debugging, samples).
func (f *TF) Show(t *Term) string {
	var sb strings.Builder
	f.show(&sb, t, 0)
	return sb.String()
}

func (f *TF) show(sb *strings.Builder, t *Term, depth int) {
	if depth > 12 {
		sb.WriteString("…")
		return
	}
	f.head(sb, t, func(a *Term) { f.show(sb, a, depth+1) })
}

func (f *TF) head(sb *strings.Builder, t *Term, arg func(a *Term)) {
	switch t.Op {
	case "var":
		sb.WriteString(t.Name)
	case "true", "false":
		sb.WriteString(t.Op)
	case "bv":
		sb.WriteString(bvLit(t.S.W, t.Val))
	case "int":
		if t.Val.Sign() < 0 {
			fmt.Fprintf(sb, "(- %s)", new(big.Int).Neg(t.Val).String())
		} else {
			sb.WriteString(t.Val.String())
		}
	case "extract":
		fmt.Fprintf(sb, "((_ extract %d %d) ", t.A, t.B)
		arg(t.Args[0])
		sb.WriteByte(')')
	case "zext":
		fmt.Fprintf(sb, "((_ zero_extend %d) ", t.A)
		arg(t.Args[0])
		sb.WriteByte(')')
	case "sext":
		fmt.Fprintf(sb, "((_ sign_extend %d) ", t.A)
		arg(t.Args[0])
		sb.WriteByte(')')
	case "constarr":
		fmt.Fprintf(sb, "((as const %s) ", t.S.str)
		arg(t.Args[0])
		sb.WriteByte(')')
	case "app":
		if len(t.Args) == 0 {
			sb.WriteString(t.Name)
			return
		}
		sb.WriteByte('(')
		sb.WriteString(t.Name)
		for _, a := range t.Args {
			sb.WriteByte(' ')
			arg(a)
		}
		sb.WriteByte(')')
	case "forall", "exists":
		sb.WriteByte('(')
		sb.WriteString(t.Op)
		sb.WriteString(" (")
		for _, b := range t.Bound {
			fmt.Fprintf(sb, "(%s %s)", b.Name, b.S.str)
		}
		sb.WriteString(") ")
		if len(t.Pats) > 0 {
			sb.WriteString("(! ")
		}
		arg(t.Args[0])
		if len(t.Pats) > 0 {
			for _, p := range t.Pats {
				sb.WriteString(" :pattern (")
				for i, x := range p {
					if i > 0 {
						sb.WriteByte(' ')
					}
					arg(x)
				}
				sb.WriteString(")")
			}
			sb.WriteString(")")
		}
		sb.WriteByte(')')
	default:
		sb.WriteByte('(')
		sb.WriteString(t.Op)
		for _, a := range t.Args {
			sb.WriteByte(' ')
			arg(a)
		}
		sb.WriteByte(')')
	}
}

// Script builds an SMT-LIB script asserting all of `asserts`; shared subterms become define-funs.
// Terms containing bound variables are never hoisted.
type Script struct {
	Text   string
	Quant  bool
	Vars   []*Term
	NNodes int
}

func (f *TF) Script(asserts []*Term, getVals []*Term) *Script {
	// collect reachable, refcounts, bound-var dependence
	ref := map[*Term]int{}
	hasBound := map[*Term]bool{}
	var order []*Term
	quant := false
	var visit func(t *Term) bool
	visit = func(t *Term) bool {
		ref[t]++
		if ref[t] > 1 {
			return hasBound[t]
		}
		hb := false
		for _, a := range t.Args {
			if visit(a) {
				hb = true
			}
		}
		for _, p := range t.Pats {
			for _, x := range p {
				visit(x)
			}
		}
		if t.Op == "forall" || t.Op == "exists" {
			quant = true
			// bound-ness is closed off by the binder (assuming no nested reuse of the same bound var outside)
			hb = false
			for _, a := range t.Args {
				if freeBound(a, t.Bound, hasBound) {
					hb = true
				}
			}
		}
		if t.Op == "var" && strings.HasPrefix(t.Name, "?") {
			hb = true
		}
		hasBound[t] = hb
		order = append(order, t)
		return hb
	}
	for _, a := range asserts {
		visit(a)
	}
	for _, a := range getVals {
		visit(a)
	}
	names := map[*Term]string{}
	var sb strings.Builder
	var vars []*Term
	for _, t := range order {
		if t.Op == "var" && !strings.HasPrefix(t.Name, "?") {
			vars = append(vars, t)
		}
	}
	sort.Slice(vars, func(i, j int) bool { return vars[i].id < vars[j].id })
	for _, v := range vars {
		fmt.Fprintf(&sb, "(declare-const %s %s)\n", v.Name, v.S.str)
	}
	used := map[string]bool{}
	for _, t := range order {
		if t.Op == "app" {
			used[t.Name] = true
		}
	}
	for _, n := range f.ufOrd {
		if used[n] {
			sb.WriteString(f.ufs[n])
			sb.WriteByte('\n')
		}
	}
	var pr func(t *Term)
	pr = func(t *Term) {
		if n, ok := names[t]; ok {
			sb.WriteString(n)
			return
		}
		f.head(&sb, t, pr)
	}
	for _, t := range order {
		if len(t.Args) == 0 || hasBound[t] {
			continue
		}
		if ref[t] > 1 || t.Op == "store" || t.Op == "ite" && t.S.K == KArr {
			n := fmt.Sprintf("n%d", t.id)
			fmt.Fprintf(&sb, "(define-fun %s () %s ", n, t.S.str)
			f.head(&sb, t, pr)
			sb.WriteString(")\n")
			names[t] = n
		}
	}
	for _, a := range asserts {
		sb.WriteString("(assert ")
		pr(a)
		sb.WriteString(")\n")
	}
	return &Script{Text: sb.String(), Quant: quant, Vars: vars, NNodes: len(order)}
}

// freeBound: does t (already visited) depend on a bound var not in `closed`?
func freeBound(t *Term, closed []*Term, hasBound map[*Term]bool) bool {
	if !hasBound[t] {
		return false
	}
	// conservative: walk
	cl := map[*Term]bool{}
	for _, b := range closed {
		cl[b] = true
	}
	seen := map[*Term]bool{}
	var rec func(t *Term) bool
	rec = func(t *Term) bool {
		if seen[t] {
			return false
		}
		seen[t] = true
		if t.Op == "var" && strings.HasPrefix(t.Name, "?") {
			return !cl[t]
		}
		if t.Op == "forall" || t.Op == "exists" {
			for _, b := range t.Bound {
				cl[b] = true
			}
		}
		for _, a := range t.Args {
			if hasBound[a] && rec(a) {
				return true
			}
		}
		return false
	}
	return rec(t)
}

// collectSyms gathers the symbols that connect assertions for relevance slicing: free variables, except that the big
// shared heap arrays (array-of-array sorts) do not count by themselves — an access to heap H at region r contributes
// the token "H@<r>" instead, so that facts about unrelated regions are not pulled in through the heap variable.
func isHub(t *Term) bool {
	return t.Op == "var" && t.S.K == KArr && t.S.Elem.K == KArr
}

func collectSyms(t *Term, seen map[*Term]bool, out map[string]bool) {
	if seen[t] {
		return
	}
	seen[t] = true
	if t.Op == "var" {
		if !strings.HasPrefix(t.Name, "?") && !isHub(t) {
			out[t.Name] = true
		}
		return
	}
	if (t.Op == "select" || t.Op == "store") && len(t.Args) >= 2 && t.Args[0].S.K == KArr && t.Args[0].S.Elem.K == KArr {
		wild := containsBound(t.Args[1], map[*Term]bool{})
		for _, r := range rootsOf(t.Args[0]) {
			if isHub(r) {
				if wild {
					out[r.Name+"@*"] = true // quantified over regions: relevant to every access of this heap
				} else {
					out[fmt.Sprintf("%s@%d", r.Name, t.Args[1].id)] = true
				}
			}
		}
	}
	for _, a := range t.Args {
		collectSyms(a, seen, out)
	}
}

// BoundVar creates a quantifier-bound variable (name starts with '?').
func (f *TF) BoundVar(hint string, s *Sort) *Term {
	f.nvar++
	return f.Var(fmt.Sprintf("?%s%d", sanitize(hint), f.nvar), s)
}
