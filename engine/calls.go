package main

import (
	"fmt"
	"go/ast"
	"go/constant"
	"go/token"
	"go/types"
	"strings"

	"golang.org/x/tools/go/ssa"
)

type ast_Expr = ast.Expr

const (
	evWrite = 1
	evSync  = 2
	evRead  = 3
	evOut   = 4
	evIn    = 5
)

const inlineMaxInstrs = 160
const inlineMaxDepth = 4

// ---------- ghost event log

// setEventResult records the outcome of the most recent event (bytes transferred, error flag).
func (tr *Tr) setEventResult(st *State, n *Term, errTid *Term) {
	f := tr.f
	i := f.ISub(tr.get(st, "ev.len"), f.IntC(1))
	tr.set(st, "ev.res", f.Store(tr.get(st, "ev.res"), i, n))
	tr.set(st, "ev.err", f.Store(tr.get(st, "ev.err"), i, f.Ite(f.Eq(errTid, f.BVi(64, 0)), f.BVi(64, 0), f.BVi(64, 1))))
}

func (tr *Tr) logEvent(st *State, kind int64, dev, off, n, buf, boff *Term) {
	f := tr.f
	i := tr.get(st, "ev.len")
	set := func(name string, v *Term) { tr.set(st, name, f.Store(tr.get(st, name), i, v)) }
	set("ev.kind", f.BVi(64, kind))
	set("ev.dev", dev)
	set("ev.off", off)
	set("ev.n", n)
	set("ev.epoch", tr.get(st, "epoch"))
	if buf != nil {
		set("ev.buf", buf)
		set("ev.boff", boff)
	}
	tr.set(st, "ev.len", f.IAdd(i, f.IntC(1)))
}

func (tr *Tr) havocLog(st *State) {
	f := tr.f
	oldLen := tr.get(st, "ev.len")
	newLen := f.Fresh("evlen", GhostIdxSort())
	tr.assume(f.And(f.ILe(oldLen, newLen), f.ILe(newLen, f.IntC(1<<60))), "event log only grows (fewer than 2^60 events)")
	tr.set(st, "ev.len", newLen)
	k := f.BoundVar("k", GhostIdxSort())
	var eqs []*Term
	var pats [][]*Term
	for _, name := range []string{"ev.kind", "ev.dev", "ev.off", "ev.n", "ev.boff", "ev.epoch", "ev.buf", "ev.res", "ev.err"} {
		o := tr.get(st, name)
		n := f.Fresh(sanitize(name), o.S)
		tr.set(st, name, n)
		eqs = append(eqs, f.Eq(f.Select(n, k), f.Select(o, k)))
		pats = append(pats, []*Term{f.Select(n, k)})
	}
	tr.assume(f.Forall([]*Term{k}, f.Implies(f.And(f.ILe(f.IntC(0), k), f.ILt(k, oldLen)), f.And(eqs...)), pats...), "event log is append-only")
	tr.set(st, "wcount", f.Fresh("wcount", ArrS(S64, S64)))
	tr.set(st, "rcount", f.Fresh("rcount", ArrS(S64, S64)))
	e := tr.get(st, "epoch")
	ne := f.Fresh("epoch", S64)
	tr.assume(f.And(f.ULe(e, ne), f.ULt(ne, f.BVu(64, 1<<62))), "sync epoch is monotone")
	tr.set(st, "epoch", ne)
}

// havocState forgets the whole heap, ghost maps and log (unknown call).
func (tr *Tr) havocState(st *State, why string) { tr.havocStateBy(st, why, nil) }

// havocStateBy: the havoc is caused by a call to callee (nil: unknown code): fields that callee cannot store into survive.
func (tr *Tr) havocStateBy(st *State, why string, callee *ssa.Function) {
	f := tr.f
	oldHeap := map[string]*Term{}
	for _, k := range heapKeys {
		oldHeap[k] = tr.get(st, heapComp(k))
	}
	allocBefore := tr.get(st, "alloc")
	defer func() {
		if callee != nil {
			tr.keepStableFields(st, oldHeap, allocBefore, callee)
		} else {
			tr.keepImmutableFields(st, oldHeap, allocBefore)
		}
	}()
	for _, k := range heapKeys {
		nh := f.Fresh("Hhavoc"+k, tr.compSort(heapComp(k)))
		for _, reg := range tr.privateRegs {
			nh = f.Store(nh, reg, f.Select(oldHeap[k], reg))
		}
		tr.set(st, heapComp(k), nh)
	}
	for name := range st.C {
		if strings.HasPrefix(name, "M.") || name == "locks" {
			old := tr.get(st, name)
			nh := f.Fresh("Mhavoc", tr.compSort(name))
			for _, pm := range tr.privateMaps {
				if strings.HasPrefix(name, pm.prefix) {
					nh = f.Store(nh, pm.id, f.Select(old, pm.id))
				}
			}
			tr.set(st, name, nh)
		}
	}
	tr.bumpAlloc(st)
	tr.havocLog(st)
}

func (tr *Tr) havocAll(fr *Frame, why string) {
	tr.note("havoc: " + why)
	tr.havocStateBy(fr.st, why, tr.havocCallee)
}

// havocAllNoWrite: like havocAll for a callee from which no device write is reachable in the call graph
// (Program.mayEffect(fn, "devwrite") is false): everything is forgotten except that the events it appended are not WRITEs.
func (tr *Tr) havocAllNoWrite(fr *Frame, why string) {
	oldLen := tr.get(fr.st, "ev.len")
	tr.note("havoc (no device write reachable from the callee): " + why)
	tr.havocStateBy(fr.st, why, tr.havocCallee)
	tr.assumeNoWriteSince(fr.st, oldLen, "events appended by a callee that cannot reach WriteAt are not WRITE events")
}

func (tr *Tr) repoMethodMayWrite(name string) bool {
	if name == "WriteAt" || name == "Truncate" {
		return true
	}
	tr.P.mayEffect(tr.top, "devwrite") // builds byMethod
	for _, m := range tr.P.byMethod[name] {
		if tr.P.mayEffect(m, "devwrite") {
			return true
		}
	}
	return false
}

func (tr *Tr) havocRegionKeys(st *State, reg *Term, keys []string) {
	for _, k := range keys {
		tr.setInner(st, k, reg, tr.f.Fresh("Rhavoc"+k, ArrS(S64, heapElemSort(k))))
	}
}

func keysOfType(t types.Type) []string {
	m := map[string]bool{}
	for _, l := range shape(t) {
		m[heapKey(l.S)] = true
	}
	var out []string
	for _, k := range heapKeys {
		if m[k] {
			out = append(out, k)
		}
	}
	return out
}

// copyRange: dst region slots [dstOff, dstOff+count) := src snapshot slots [srcOff, ...), for the given heap keys.
func (tr *Tr) copyRange(st *State, keys []string, dstReg, dstOff *Term, srcInner map[string]*Term, srcOff, count *Term) {
	f := tr.f
	if count.Op != "bv" {
		// count = n * m with n known constant from an assumed postcondition
		if c := tr.constOf(count); c != nil {
			count = c
		} else if count.Op == "bvmul" && count.Args[1].Op == "bv" {
			if c := tr.constOf(count.Args[0]); c != nil {
				count = f.Mul(c, count.Args[1])
			}
		}
	}
	if count.Op == "bv" && count.Val.IsInt64() && count.Val.Int64() <= 96 {
		n := count.Val.Int64()
		for _, k := range keys {
			d := tr.inner(st, k, dstReg)
			for i := int64(0); i < n; i++ {
				d = f.Store(d, f.AddC(dstOff, i), f.Select(srcInner[k], f.AddC(srcOff, i)))
			}
			tr.setInner(st, k, dstReg, d)
		}
		return
	}
	for _, k := range keys {
		d := tr.inner(st, k, dstReg)
		nd := f.Fresh("cp"+k, d.S)
		j := f.BoundVar("j", S64)
		in := f.And(f.ULe(dstOff, j), f.ULt(j, f.Add(dstOff, count)))
		body := f.Eq(f.Select(nd, j), f.Ite(in, f.Select(srcInner[k], f.Add(srcOff, f.Sub(j, dstOff))), f.Select(d, j)))
		tr.assume(f.Forall([]*Term{j}, body, []*Term{f.Select(nd, j)}), "copy semantics")
		tr.setInner(st, k, dstReg, nd)
	}
}

func (tr *Tr) snapshot(st *State, keys []string, reg *Term) map[string]*Term {
	m := map[string]*Term{}
	for _, k := range keys {
		m[k] = tr.inner(st, k, reg)
	}
	return m
}

// ---------- call dispatch

func (tr *Tr) setResult(fr *Frame, res *ssa.Call, v Val) {
	if res != nil {
		fr.env[res] = v
	}
}

func (tr *Tr) callGuarded(fr *Frame, d deferred) {
	// run the deferred call under its guard and merge
	f := tr.f
	cur := fr.reach[fr.cur]
	g := f.And(cur, d.guard)
	if g.IsFalse() {
		return
	}
	before := fr.st.clone()
	saved := fr.reach[fr.cur]
	fr.reach[fr.cur] = g
	tr.call(fr, d.site, d.call, nil)
	fr.reach[fr.cur] = saved
	if g != cur {
		fr.st = tr.merge([]*State{fr.st, before}, []*Term{d.guard, f.Not(d.guard)})
	}
}

func (tr *Tr) call(fr *Frame, site ssa.Instruction, c *ssa.CallCommon, res *ssa.Call) {
	var rt types.Type = types.NewTuple()
	if res != nil {
		rt = res.Type()
	} else {
		rt = c.Signature().Results()
	}
	fresh := func(hint string) Val { return tr.freshVal(rt, hint) }

	if b, ok := c.Value.(*ssa.Builtin); ok {
		tr.setResult(fr, res, tr.builtin(fr, site, c, b, rt))
		return
	}
	if c.IsInvoke() {
		tr.setResult(fr, res, tr.invoke(fr, site, c, rt))
		return
	}
	var args []Val
	for _, a := range c.Args {
		args = append(args, tr.val(a))
	}
	// closure defined in this function
	if ci, ok := fr.closures[c.Value]; ok {
		tr.atCallAsserts(fr, site, ci.fn, c, args)
		if ct := tr.P.contracts[ci.fn]; ct != nil && !ct.Inline {
			tr.curBind = ci.bind
			tr.setResult(fr, res, tr.callByContract(fr, site, ci.fn, ct, args, rt))
			tr.curBind = nil
			return
		}
		tr.setResult(fr, res, tr.inlineCall(fr, site, ci.fn, args, ci.bind))
		return
	}
	if mc, ok := c.Value.(*ssa.MakeClosure); ok {
		// closure created elsewhere in this frame
		if ci, ok := fr.closures[mc]; ok {
			tr.setResult(fr, res, tr.inlineCall(fr, site, ci.fn, args, ci.bind))
			return
		}
	}
	sf := c.StaticCallee()
	if sf == nil {
		tr.uncheckedCalleeEffects(fr, site, "function value", func(e string) bool { return tr.P.dynMayEffectV(c.Value, e) })
		if !tr.callMayWrite(fr, c) {
			tr.havocAllNoWrite(fr, "call through a function value at "+describe(tr.P.prog, site.Pos()))
		} else {
			tr.havocAll(fr, "call through a function value at "+describe(tr.P.prog, site.Pos()))
		}
		tr.setResult(fr, res, fresh("dyn"))
		return
	}
	tr.atCallAsserts(fr, site, sf, c, args)
	if v, ok := tr.stdModel(fr, site, c, sf, args, rt); ok {
		tr.setResult(fr, res, v)
		return
	}
	if ct := tr.P.contracts[sf]; ct != nil && !ct.Inline {
		tr.setResult(fr, res, tr.callByContract(fr, site, sf, ct, args, rt))
		return
	}
	if tr.P.isRepoFunc(sf) && tr.canInline(sf) {
		tr.setResult(fr, res, tr.inlineCall(fr, site, sf, args, nil))
		return
	}
	if tr.P.isRepoFunc(sf) {
		tr.uncheckedCalleeEffects(fr, site, sf.Name(), func(e string) bool { return tr.P.mayEffect(sf, e) })
		tr.havocCallee = sf
		defer func() { tr.havocCallee = nil }()
		if !tr.P.mayEffect(sf, "devwrite") {
			tr.havocAllNoWrite(fr, "repo callee without contract, too large to inline: "+funcDisplay(sf))
			tr.setResult(fr, res, fresh("r_"+sf.Name()))
			return
		}
		tr.havocAll(fr, "repo callee without contract, too large to inline: "+funcDisplay(sf))
		tr.setResult(fr, res, fresh("r_"+sf.Name()))
		return
	}
	// foreign function: arguments' regions may be written, nothing else
	tr.uncheckedCalleeEffects(fr, site, sf.String(), func(e string) bool { return effectSource(sf, e) })
	tr.foreignCall(fr, c, sf, args)
	tr.setResult(fr, res, fresh("r_"+sf.Name()))
}

func (tr *Tr) canInline(fn *ssa.Function) bool {
	if tr.inlineDepth >= inlineMaxDepth {
		return false
	}
	for _, fr := range tr.frames {
		if fr.fn == fn {
			return false
		}
	}
	n := 0
	for _, b := range fn.Blocks {
		n += len(b.Instrs)
	}
	return n <= inlineMaxInstrs
}

func (tr *Tr) inlineCall(fr *Frame, site ssa.Instruction, fn *ssa.Function, args []Val, bind []Val) Val {
	f := tr.f
	if fn.Blocks == nil {
		tr.havocAll(fr, "no body for "+fn.String())
		return tr.freshVal(fn.Signature.Results(), "nobody")
	}
	// recursion guard
	for _, x := range tr.frames {
		if x.fn == fn {
			tr.havocAll(fr, "recursive call to "+funcDisplay(fn))
			return tr.freshVal(fn.Signature.Results(), "rec")
		}
	}
	tr.inlineDepth++
	defer func() { tr.inlineDepth-- }()
	reach := fr.reach[fr.cur]
	fr.callOrd["inl:"+fn.Name()]++
	prefix := fmt.Sprintf("%sinl:%s.%d/", fr.prefix, fn.Name(), fr.callOrd["inl:"+fn.Name()])
	// loop specs of an `inline` contract are honoured inside the inlined body
	var ct *Contract
	if c := tr.P.contracts[fn]; c != nil && c.Inline {
		ct = c
	}
	vals, out, ret := tr.run(fn, args, bind, fr.st, reach, prefix, ct)
	fr.st = out
	tr.assume(f.Implies(reach, ret), "inlined call to "+funcDisplay(fn)+" returned")
	tr.note("inlined " + funcDisplay(fn))
	return vals
}

// foreignCall: unknown function outside the repository. It can write through pointer-like arguments only.
func (tr *Tr) foreignCall(fr *Frame, c *ssa.CallCommon, sf *ssa.Function, args []Val) {
	name := "?"
	if sf != nil {
		name = sf.String()
	}
	pure := sf != nil && sf.Pkg != nil && purePkg(sf.Pkg.Pkg.Path())
	if sf != nil && effectSource(sf, "devwrite") {
		// handed a device writer: it may write anywhere on it
		tr.havocLog(fr.st)
		tr.note("foreign call given a device writer (event log havocked): " + name)
	}
	if !pure {
		for i, a := range c.Args {
			tr.havocReachable(fr.st, a.Type(), args[i])
		}
		tr.note("foreign call (arguments' memory havocked): " + name)
	}
	tr.bumpAlloc(fr.st)
	tr.trust("foreign function " + name + ": no panic, terminates, touches only memory reachable (one level) from its arguments")
}

func (tr *Tr) havocReachable(st *State, t types.Type, v Val) {
	switch u := t.Underlying().(type) {
	case *types.Slice:
		tr.havocRegionKeys(st, v[0], keysOfType(u.Elem()))
	case *types.Pointer:
		tr.havocRegionKeys(st, v[0], heapKeys)
	case *types.Interface:
		tr.havocRegionKeys(st, v[1], heapKeys)
	case *types.Map:
		tr.havocMapType(st, t)
	}
}

func purePkg(path string) bool {
	switch path {
	case "strings", "strconv", "math", "math/bits", "path", "path/filepath", "unicode/utf16", "unicode/utf8", "unicode", "errors", "fmt",
		"hash/crc32", "github.com/elliotwutingfeng/asciiset", "cmp", "slices", "bytes", "sort", "regexp", "time", "github.com/google/uuid":
		return true
	}
	return false
}

// ---------- builtins

func (tr *Tr) builtin(fr *Frame, site ssa.Instruction, c *ssa.CallCommon, b *ssa.Builtin, rt types.Type) Val {
	f := tr.f
	switch b.Name() {
	case "len", "cap":
		a := tr.val(c.Args[0])
		t := c.Args[0].Type()
		switch u := t.Underlying().(type) {
		case *types.Slice:
			if b.Name() == "len" {
				return Val{a[2]}
			}
			return Val{a[3]}
		case *types.Basic:
			return Val{a[1]}
		case *types.Array:
			return Val{f.BVi(64, u.Len())}
		case *types.Pointer:
			if ar, ok := u.Elem().Underlying().(*types.Array); ok {
				return Val{f.BVi(64, ar.Len())}
			}
		case *types.Map:
			return Val{tr.mapLen(fr.st, t, a[0])}
		}
		r := f.Fresh("len", S64)
		tr.assume(f.And(f.SLe(f.BVi(64, 0), r), f.SLe(r, tr.maxLen)), "len range")
		return Val{r}
	case "append":
		return tr.appendOp(fr, site, c)
	case "copy":
		d, s := tr.val(c.Args[0]), tr.val(c.Args[1])
		tr.sliceTypeFacts(elemType(c.Args[0].Type()), d[0])
		var sl, sreg, soff *Term
		var srcInner map[string]*Term
		keys := keysOfType(elemType(c.Args[0].Type()))
		m := int64(nleaves(elemType(c.Args[0].Type())))
		if isString(c.Args[1].Type()) {
			sl = s[1]
			srcInner = map[string]*Term{"8": f.App("strbytes", ArrS(S64, S8), s[0])}
			soff = f.BVi(64, 0)
		} else {
			sl, sreg, soff = s[2], s[0], s[1]
			srcInner = tr.snapshot(fr.st, keys, sreg)
		}
		dl := d[2]
		if c := tr.constOf(dl); c != nil {
			dl = c
		}
		if c := tr.constOf(sl); c != nil {
			sl = c
		}
		n := f.Ite(f.SLt(dl, sl), dl, sl)
		tr.copyRange(fr.st, keys, d[0], d[1], srcInner, soff, f.Mul(n, f.BVi(64, m)))
		return Val{n}
	case "min", "max":
		v := tr.val(c.Args[0])
		_, sg, ok := intLeaf(c.Args[0].Type())
		if !ok {
			return tr.freshVal(rt, b.Name())
		}
		cur := v[0]
		for _, a := range c.Args[1:] {
			o := tr.val(a)[0]
			var lt *Term
			if sg {
				lt = f.SLt(cur, o)
			} else {
				lt = f.ULt(cur, o)
			}
			if b.Name() == "min" {
				cur = f.Ite(lt, cur, o)
			} else {
				cur = f.Ite(lt, o, cur)
			}
		}
		return Val{cur}
	case "delete":
		tr.mapDelete(fr, c)
		return nil
	case "clear":
		tr.havocReachable(fr.st, c.Args[0].Type(), tr.val(c.Args[0]))
		return nil
	case "print", "println":
		return nil
	case "panic":
		tr.oblige("panic", site.Pos(), f.False(), "explicit panic reachable")
		return nil
	case "recover":
		return tr.freshVal(rt, "recover")
	}
	tr.note("unmodelled builtin " + b.Name())
	return tr.freshVal(rt, b.Name())
}

func (tr *Tr) appendOp(fr *Frame, site ssa.Instruction, c *ssa.CallCommon) Val {
	f := tr.f
	s := tr.val(c.Args[0])
	et := elemType(c.Args[0].Type())
	tr.sliceTypeFacts(et, s[0])
	keys := keysOfType(et)
	m := int64(nleaves(et))
	if m == 0 {
		m = 1
	}
	if len(c.Args) < 2 {
		return s
	}
	e := tr.val(c.Args[1])
	var n, soff *Term
	var srcInner map[string]*Term
	if isString(c.Args[1].Type()) {
		n = e[1]
		srcInner = map[string]*Term{"8": f.App("strbytes", ArrS(S64, S8), e[0])}
		soff = f.BVi(64, 0)
	} else {
		n = e[2]
		srcInner = tr.snapshot(fr.st, keys, e[0])
		soff = e[1]
	}
	if c := tr.constOf(n); c != nil {
		n = c
	}
	newLen := f.Add(s[2], n)
	tr.assumeHere(f.SLe(newLen, tr.maxLen), "append does not exhaust memory (result length below 2^48)")
	inplace := f.SLe(newLen, s[3])
	if !inplace.IsTrue() && !inplace.IsFalse() {
		// decide the capacity question now when the path condition settles it (keeps the heap a single store chain)
		if tr.provableNow(inplace) {
			inplace = f.True()
		} else if tr.provableNow(f.Not(inplace)) {
			inplace = f.False()
		}
	}
	// in-place branch
	var stIn, stNew *State
	if !inplace.IsFalse() {
		stIn = fr.st.clone()
		tr.copyRange(stIn, keys, s[0], f.Add(s[1], f.Mul(s[2], f.BVi(64, m))), srcInner, soff, f.Mul(n, f.BVi(64, m)))
	}
	var newReg, newCap *Term
	if !inplace.IsTrue() {
		stNew = fr.st.clone()
		oldInner := tr.snapshot(stNew, keys, s[0])
		newReg = tr.allocTyped(stNew, c.Args[0].Type().Underlying())
		tr.copyRange(stNew, keys, newReg, f.BVi(64, 0), oldInner, s[1], f.Mul(s[2], f.BVi(64, m)))
		tr.copyRange(stNew, keys, newReg, f.Mul(s[2], f.BVi(64, m)), srcInner, soff, f.Mul(n, f.BVi(64, m)))
		newCap = f.Fresh("appcap", S64)
		tr.assume(f.And(f.SLe(newLen, newCap), f.SLe(newCap, tr.maxLen)), "append: new capacity")
	}
	switch {
	case stNew == nil:
		fr.st = stIn
		return Val{s[0], s[1], newLen, s[3]}
	case stIn == nil:
		fr.st = stNew
		return Val{newReg, f.BVi(64, 0), newLen, newCap}
	}
	fr.st = tr.merge([]*State{stIn, stNew}, []*Term{inplace, f.Not(inplace)})
	return Val{f.Ite(inplace, s[0], newReg), f.Ite(inplace, s[1], f.BVi(64, 0)), newLen, f.Ite(inplace, s[3], newCap)}
}

// ---------- interface method calls (environment contracts)

func (tr *Tr) invoke(fr *Frame, site ssa.Instruction, c *ssa.CallCommon, rt types.Type) Val {
	f := tr.f
	recv := tr.val(c.Value)
	tr.nilCheckIface(site.Pos(), recv[0])
	dev := recv[1]
	var args []Val
	for _, a := range c.Args {
		args = append(args, tr.val(a))
	}
	m := c.Method
	name := m.Name()
	sig := m.Type().(*types.Signature)
	z := f.BVi(64, 0)
	byteSliceArg := func(i int) bool {
		if i >= len(c.Args) {
			return false
		}
		s, ok := c.Args[i].Type().Underlying().(*types.Slice)
		if !ok {
			return false
		}
		w, _, ok := intLeaf(s.Elem())
		return ok && w == 8
	}
	retErr := func() Val {
		e := tr.freshVal(types.Universe.Lookup("error").Type(), "err_"+name)
		// errors coming from the environment cannot contain this module's unexported error types
		for _, t := range tr.P.errAsTargets() {
			pt := t
			if p, ok := pt.Underlying().(*types.Pointer); ok {
				pt = p.Elem()
			}
			if n, ok := pt.(*types.Named); ok && !n.Obj().Exported() {
				tr.assumeHere(tr.f.Not(tr.errHas(t, e)), "environment errors do not wrap the unexported type "+n.Obj().Name())
			}
		}
		return e
	}
	nerr := func(p Val, exact bool) (Val, *Term, Val) {
		n := f.Fresh("n_"+name, S64)
		e := retErr()
		tr.assume(f.And(f.SLe(z, n), f.SLe(n, p[2])), name+": 0 <= n <= len(p)")
		if exact {
			tr.assume(f.Implies(f.SLt(n, p[2]), f.Neq(e[0], z)), name+": n < len(p) implies err != nil")
		}
		return Val{n}, n, e
	}
	tr.atCallAssertsName(fr, site, name, c, args)
	// interface contract written in a contract file takes precedence
	if ic := tr.ifaceContract(c); ic != nil {
		return tr.callIfaceContract(fr, site, c, ic, recv, args, rt)
	}
	switch {
	case name == "Read" && len(c.Args) == 1 && byteSliceArg(0) && sig.Results().Len() == 2:
		p := args[0]
		tr.havocRegionKeys(fr.st, p[0], []string{"8"})
		nv, n, e := nerr(p, false)
		rc := tr.get(fr.st, "rcount")
		tr.logEvent(fr.st, evIn, dev, f.Select(rc, dev), n, nil, nil)
		tr.set(fr.st, "rcount", f.Store(rc, dev, f.Add(f.Select(rc, dev), n)))
		tr.setEventResult(fr.st, n, e[0])
		if tr.usesStream() {
			// the reader delivers a fixed byte sequence stream(dev, 0..streamlen(dev)): the bytes of this Read are the next n of it
			pos0 := f.Select(rc, dev)
			inner := tr.inner(fr.st, "8", p[0])
			q := f.BoundVar("q", S64)
			tr.assume(f.Forall([]*Term{q}, f.Implies(f.And(f.SLe(pos0, q), f.SLt(q, f.Add(pos0, n))),
				f.Eq(f.Select(inner, f.Add(p[1], f.Sub(q, pos0))), f.App("stream", S8, dev, q))), []*Term{f.App("stream", S8, dev, q)}),
				"io.Reader.Read delivers the next n bytes of the reader's stream")
			sl := f.App("streamlen", S64, dev)
			conj := []*Term{f.SLe(z, pos0), f.SLe(f.Add(pos0, n), sl), f.SLe(sl, f.BVu(64, 1<<60))}
			if eof := tr.ioEOF(); eof != nil {
				conj = append(conj, f.Implies(f.And(f.Eq(e[0], eof[0]), f.Eq(e[1], eof[1])), f.Eq(f.Add(pos0, n), sl)))
				conj = append(conj, f.Implies(f.And(f.Eq(f.Add(pos0, n), sl), f.Eq(n, z), f.SLt(z, p[2])), f.Neq(e[0], z)))
			}
			tr.assume(f.And(conj...), "io.Reader.Read: never past the end of the stream; io.EOF only at the end; at the end an empty read of a non-empty buffer reports an error")
			tr.trust("io.Reader (sequential): delivers consecutive bytes of one fixed stream, io.EOF exactly at its end")
		}
		tr.trust("io.Reader.Read: 0 <= n <= len(p), only p is written")
		return append(nv, e...)
	case name == "ReadAt" && len(c.Args) == 2 && byteSliceArg(0):
		p := args[0]
		off := args[1][0]
		newInner := f.Fresh("readat", ArrS(S64, S8))
		tr.setInner(fr.st, "8", p[0], newInner)
		nv, n, e := nerr(p, true)
		tr.logEvent(fr.st, evRead, dev, off, p[2], newInner, p[1])
		tr.setEventResult(fr.st, n, e[0])
		tr.trust("io.ReaderAt.ReadAt: 0 <= n <= len(p), n < len(p) => err != nil, only p is written")
		return append(nv, e...)
	case name == "WriteAt" && len(c.Args) == 2 && byteSliceArg(0):
		p := args[0]
		off := args[1][0]
		tr.effect(fr, site, "devwrite")
		tr.logEvent(fr.st, evWrite, dev, off, p[2], tr.inner(fr.st, "8", p[0]), p[1])
		nv, n, e := nerr(p, true)
		tr.setEventResult(fr.st, n, e[0])
		tr.trust("io.WriterAt.WriteAt: 0 <= n <= len(p), n < len(p) => err != nil")
		return append(nv, e...)
	case name == "Write" && len(c.Args) == 1 && byteSliceArg(0) && sig.Results().Len() == 2:
		p := args[0]
		tr.effect(fr, site, "devwrite")
		wc := tr.get(fr.st, "wcount")
		tr.logEvent(fr.st, evOut, dev, f.Select(wc, dev), p[2], tr.inner(fr.st, "8", p[0]), p[1])
		tr.set(fr.st, "wcount", f.Store(wc, dev, f.Add(f.Select(wc, dev), p[2])))
		nv, n, e := nerr(p, true)
		tr.setEventResult(fr.st, n, e[0])
		tr.trust("io.Writer.Write: 0 <= n <= len(p), n < len(p) => err != nil")
		return append(nv, e...)
	case name == "Sync" && len(c.Args) == 0:
		tr.logEvent(fr.st, evSync, dev, z, z, nil, nil)
		tr.set(fr.st, "epoch", f.AddC(tr.get(fr.st, "epoch"), 1))
		return retErr()
	case name == "Seek" && len(c.Args) == 2:
		r := f.Fresh("seekpos", S64)
		e := retErr()
		sz := f.App("devsize", S64, dev)
		tr.assume(f.And(f.SLe(z, sz), f.SLe(sz, f.BVu(64, 1<<60))), "device size is non-negative (and below 1 EiB)")
		tr.assume(f.Implies(f.Eq(e[0], z), f.And(f.SLe(z, r),
			f.Implies(f.Eq(args[1][0], f.BVi(64, 2)), f.Eq(r, f.Add(sz, args[0][0]))),
			f.Implies(f.Eq(args[1][0], f.BVi(64, 0)), f.Eq(r, args[0][0])))), "io.Seeker.Seek")
		tr.trust("io.Seeker.Seek: on success returns the new offset (whence 0: offset; whence 2: size+offset), >= 0")
		return append(Val{r}, e...)
	case name == "Writable" && len(c.Args) == 0 && sig.Results().Len() == 2:
		w := tr.freshVal(sig.Results().At(0).Type(), "wf")
		e := retErr()
		ro := f.App("ro", SBool, dev)
		tr.assume(f.Implies(ro, f.Neq(e[0], z)), "Writable() fails on a read-only backend")
		tr.assume(f.Implies(f.Eq(e[0], z), f.And(f.Neq(w[0], z), f.Eq(w[1], dev))), "Writable() returns the same device")
		tr.effect(fr, site, "writable")
		tr.trust("backend.Storage.Writable: error when the backend is read-only (proved for file.rawBackend and SubStorage separately); result writes to the same device")
		return append(w, e...)
	case name == "Open" && len(c.Args) == 1 && sig.Results().Len() == 2 && !tr.repoInterface(c.Value.Type()) && isIface(sig.Results().At(0).Type()):
		// fs.FS.Open: every successful call returns a new open file (its own identity, its own read position)
		e := retErr()
		reg := tr.allocRegion(fr.st)
		tid := f.Fresh("tid_Open", S64)
		okc := f.Eq(e[0], z)
		tr.assume(f.Implies(okc, f.Neq(tid, z)), "Open: non-nil file on success")
		tr.havocLog(fr.st)
		tr.trust("fs.FS.Open: a successful call returns a newly opened file, distinct from every file opened before; reads only")
		tr.assume(f.Implies(f.Not(okc), f.Eq(tid, z)), "Open: nil file on error")
		return append(Val{tid, reg, z}, e...)
	case name == "Error" && len(c.Args) == 0:
		id := f.App("errstr", S64, recv[0], recv[1], recv[2])
		return tr.strOf(id)
	case name == "Close" && len(c.Args) == 0, name == "Unwrap":
		return tr.freshVal(rt, name)
	case name == "Lock" || name == "Unlock" || name == "RLock" || name == "RUnlock":
		return nil
	}
	// pure accessors of foreign interfaces (fs.FileInfo, fs.DirEntry ...): deterministic functions of the object
	if !tr.repoInterface(c.Value.Type()) {
		if len(c.Args) == 0 && pureAccessor(name) {
			ls := shape(rt)
			out := make(Val, len(ls))
			for i, l := range ls {
				out[i] = f.App(fmt.Sprintf("m_%s_%d", name, i), l.S, recv[1], recv[2])
			}
			tr.assumeInv(ls, out)
			tr.trust("foreign interface accessor " + name + "(): deterministic, no side effects")
			return out
		}
		for i, a := range c.Args {
			tr.havocReachable(fr.st, a.Type(), args[i])
		}
		tr.havocRegionKeys(fr.st, recv[1], heapKeys)
		tr.bumpAlloc(fr.st)
		tr.havocLog(fr.st)
		tr.note("foreign interface method (receiver and arguments havocked): " + name)
		return tr.freshVal(rt, "iv_"+name)
	}
	tr.uncheckedCalleeEffects(fr, site, "interface method "+name, func(e string) bool {
		tr.P.mayEffect(nil, e)
		for _, m := range tr.P.byMethod[name] {
			if tr.P.mayEffect(m, e) {
				return true
			}
		}
		return false
	})
	if !tr.repoMethodMayWrite(name) {
		tr.havocAllNoWrite(fr, "repo interface method without contract: "+types.TypeString(c.Value.Type(), nil)+"."+name)
		return tr.freshVal(rt, "iv_"+name)
	}
	tr.havocAll(fr, "repo interface method without contract: "+types.TypeString(c.Value.Type(), nil)+"."+name)
	return tr.freshVal(rt, "iv_"+name)
}

func pureAccessor(name string) bool {
	switch name {
	case "Size", "Name", "IsDir", "Mode", "ModTime", "Sys", "Type", "Info", "Len", "String", "IsRegular", "Perm":
		return true
	}
	return false
}

func (tr *Tr) strOf(id *Term) Val {
	f := tr.f
	ln := f.App("strlen", S64, id)
	tr.assume(f.And(f.SLe(f.BVi(64, 0), ln), f.SLe(ln, tr.maxLen), f.Eq(f.Eq(id, f.BVi(64, 0)), f.Eq(ln, f.BVi(64, 0)))), "string header")
	return Val{id, ln}
}

func (tr *Tr) nilCheckIface(pos token.Pos, tid *Term) {
	if !tr.nilObl {
		return
	}
	tr.oblige("nil", pos, tr.f.Neq(tid, tr.f.BVi(64, 0)), "method call on nil interface")
}

func (tr *Tr) repoInterface(t types.Type) bool {
	if n, ok := t.(*types.Named); ok && n.Obj().Pkg() != nil {
		return strings.HasPrefix(n.Obj().Pkg().Path(), modPath)
	}
	return false
}

// pureAccessorVal: the value of a side-effect-free accessor x.name() in state st - one fresh value per receiver and per
// heap (identified by the terms of all heap components), so two evaluations with nothing written in between agree.
func (tr *Tr) pureAccessorVal(st *State, name string, recv Val, rt types.Type) Val {
	key := fmt.Sprintf("%s|%d|%d", name, recv[1].id, recv[2].id)
	for _, k := range heapKeys {
		key += fmt.Sprintf("|%d", tr.get(st, heapComp(k)).id)
	}
	if tr.pureCache == nil {
		tr.pureCache = map[string]Val{}
	}
	if v, ok := tr.pureCache[key]; ok {
		return v
	}
	v := tr.freshVal(rt, "pm_"+name)
	tr.pureCache[key] = v
	return v
}

func (tr *Tr) ifaceContract(c *ssa.CallCommon) *Contract {
	n, ok := c.Value.Type().(*types.Named)
	if !ok || n.Obj().Pkg() == nil {
		return nil
	}
	return tr.P.ifaceC[n.Obj().Pkg().Path()+"."+n.Obj().Name()+"."+c.Method.Name()]
}

// ---------- effects (C11 / C14)

func (tr *Tr) effect(fr *Frame, site ssa.Instruction, eff string) {
	top := tr.frames[0]
	if top.contract == nil {
		return
	}
	for _, e := range top.contract.Effects {
		if e == eff {
			tr.obligeNamed("effect", eff, site.Pos(), tr.effectGoal(eff), "forbidden effect reachable: "+eff)
		}
	}
}

// effectGoal: false, or "not cond" when the effect is only forbidden for entry states satisfying cond.
func (tr *Tr) effectGoal(eff string) *Term {
	top := tr.frames[0]
	w := top.contract.EffectWhen[eff]
	if w == nil {
		return tr.f.False()
	}
	env := tr.envFor(top, nil, tr.entry)
	env.fr = nil
	for k, v := range tr.topParams {
		env.vars[k] = v
	}
	t, err := env.EvalBool(w.Expr)
	if err != nil {
		tr.specError(*w, err)
		return tr.f.False()
	}
	return tr.f.Not(t)
}

// uncheckedCalleeEffects: a callee that is neither inlined nor called by contract must not be able to reach a forbidden source.
func (tr *Tr) uncheckedCalleeEffects(fr *Frame, site ssa.Instruction, what string, may func(eff string) bool) {
	top := tr.frames[0]
	if top.contract == nil {
		return
	}
	for _, e := range top.contract.Effects {
		if e == "devwrite" {
			continue
		}
		if may(e) {
			tr.obligeNamed("effect", e+"@"+what, site.Pos(), tr.effectGoal(e), "callee "+what+" may reach a source of effect "+e)
		}
	}
}

// ---------- contracts at call sites

func (tr *Tr) calleeEnv(fn *ssa.Function, ct *Contract, args []Val, pre, post *State) *Env {
	env := &Env{tr: tr, pkg: fn.Pkg.Pkg, vars: map[string]EVal{}, macros: map[string]ast.Expr{}, st: post, old: pre}
	for i, p := range fn.Params {
		env.vars[p.Name()] = EVal{V: args[i], T: p.Type()}
	}
	// captured variables of a closure under contract: visible by name (value read through the captured pointer)
	for i, fv := range fn.FreeVars {
		if i >= len(tr.curBind) {
			break
		}
		b := tr.curBind[i]
		if pt, ok := fv.Type().Underlying().(*types.Pointer); ok {
			ls := shape(pt.Elem())
			env.vars[fv.Name()] = EVal{V: tr.loadLeaves(post, ls, b[0], b[1]), T: pt.Elem()}
		} else {
			env.vars[fv.Name()] = EVal{V: b, T: fv.Type()}
		}
	}
	for _, l := range ct.Lets {
		env.macros[l.Label] = l.Expr
	}
	env.allocAtEntry = tr.get(pre, "alloc")
	return env
}

func bindResults(env *Env, sig *types.Signature, res Val) {
	off := 0
	for i := 0; i < sig.Results().Len(); i++ {
		r := sig.Results().At(i)
		n := nleaves(r.Type())
		v := EVal{V: res[off : off+n], T: r.Type()}
		env.vars[fmt.Sprintf("ret%d", i)] = v
		if r.Name() != "" && r.Name() != "_" {
			env.vars[r.Name()] = v
		}
		off += n
	}
}

type modItem struct {
	whole  bool
	reg    *Term
	keys   []string
	lo, hi *Term // slot range (when !whole)
	events bool
	maps   types.Type
	objsOf types.Type // every object allocated with this type may change (type-based frame)
}

// evalModifies evaluates the modifies clauses of a contract in the given (pre) environment.
func (tr *Tr) evalModifies(env *Env, ct *Contract) (items []modItem, ok bool) {
	f := tr.f
	ok = true
	for _, c := range ct.Modifies {
		if id, isId := c.Expr.(*ast.Ident); isId && id.Name == "W" {
			items = append(items, modItem{events: true})
			continue
		}
		var it modItem
		func() {
			defer func() {
				if r := recover(); r != nil {
					if ee, isE := r.(evalErr); isE {
						tr.specError(c, fmt.Errorf("%s", ee.msg))
						ok = false
						return
					}
					panic(r)
				}
			}()
			switch x := c.Expr.(type) {
			case *ast.StarExpr:
				v := env.eval(x.X)
				pt, isP := v.T.Underlying().(*types.Pointer)
				if !isP {
					env.fail("modifies *x: x must be a pointer")
				}
				it = modItem{whole: true, reg: v.V[0], keys: keysOfType(pt.Elem())}
			case *ast.SliceExpr:
				v := env.eval(x.X)
				sl, isS := v.T.Underlying().(*types.Slice)
				if !isS {
					env.fail("modifies x[:]: x must be a slice")
				}
				it = modItem{whole: true, reg: v.V[0], keys: keysOfType(sl.Elem())}
			case *ast.SelectorExpr:
				base := env.eval(x.X)
				pt, isP := base.T.Underlying().(*types.Pointer)
				if !isP {
					env.fail("modifies p.f: p must be a pointer")
				}
				st := pt.Elem().Underlying().(*types.Struct)
				found := false
				for i := 0; i < st.NumFields(); i++ {
					if st.Field(i).Name() == x.Sel.Name {
						lo := f.AddC(base.V[1], int64(fieldOffset(st, i)))
						it = modItem{reg: base.V[0], keys: keysOfType(st.Field(i).Type()), lo: lo, hi: f.AddC(lo, int64(nleaves(st.Field(i).Type())))}
						found = true
					}
				}
				if !found {
					env.fail("modifies: no field %s", x.Sel.Name)
				}
			case *ast.CallExpr:
				if id, isId := x.Fun.(*ast.Ident); isId && id.Name == "each" {
					// each(s): the objects the elements of s point to; framed by allocation type
					v := env.eval(x.Args[0])
					sl, isS := v.T.Underlying().(*types.Slice)
					if !isS {
						env.fail("each(s): s must be a slice of pointers")
					}
					pt, isP := sl.Elem().Underlying().(*types.Pointer)
					if !isP {
						env.fail("each(s): s must be a slice of pointers")
					}
					it = modItem{objsOf: pt.Elem(), keys: keysOfType(pt.Elem())}
				} else if id, isId := x.Fun.(*ast.Ident); isId && id.Name == "region" {
					v := env.eval(x.Args[0])
					k := 0
					if isIface(v.T) {
						k = 1
					}
					it = modItem{whole: true, reg: v.V[k], keys: heapKeys}
				} else {
					env.fail("unsupported modifies item")
				}
			case *ast.Ident:
				v := env.eval(x)
				if isMap(v.T) {
					it = modItem{maps: v.T}
				} else {
					env.fail("unsupported modifies item %s", x.Name)
				}
			default:
				env.fail("unsupported modifies item")
			}
		}()
		if it.reg != nil || it.maps != nil || it.objsOf != nil {
			items = append(items, it)
		}
	}
	return items, ok
}

func (tr *Tr) applyModifies(st *State, items []modItem) {
	f := tr.f
	for _, it := range items {
		switch {
		case it.events:
			tr.havocLog(st)
		case it.maps != nil:
			tr.havocMapType(st, it.maps)
		case it.objsOf != nil:
			tag := f.BVu(64, typeTag(it.objsOf))
			for _, k := range it.keys {
				old := tr.get(st, heapComp(k))
				nh := f.Fresh("Hobj"+k, old.S)
				r := f.BoundVar("r", S64)
				tr.assume(f.Forall([]*Term{r}, f.Implies(f.Neq(tr.rtype(r), tag), f.Eq(f.Select(nh, r), f.Select(old, r))), []*Term{f.Select(nh, r)}),
					"only objects allocated as "+it.objsOf.String()+" may have changed")
				tr.frames2[nh] = frameInfo{old: old, typed: map[string]bool{tag.Val.String(): true}}
				tr.set(st, heapComp(k), nh)
			}
		case it.whole:
			tr.havocRegionKeys(st, it.reg, it.keys)
		default:
			// constant-width slot range
			n := f.Sub(it.hi, it.lo)
			if n.Op == "bv" && n.Val.IsInt64() && n.Val.Int64() <= 64 {
				for _, k := range it.keys {
					d := tr.inner(st, k, it.reg)
					for i := int64(0); i < n.Val.Int64(); i++ {
						d = f.Store(d, f.AddC(it.lo, i), f.Fresh("mod", heapElemSort(k)))
					}
					tr.setInner(st, k, it.reg, d)
				}
			} else {
				tr.havocRegionKeys(st, it.reg, it.keys)
			}
		}
	}
}

func (tr *Tr) callByContract(fr *Frame, site ssa.Instruction, fn *ssa.Function, ct *Contract, args []Val, rt types.Type) Val {
	f := tr.f
	pre := fr.st
	env := tr.calleeEnv(fn, ct, args, pre, pre)
	env.old = nil
	fr.callOrd["pre:"+fn.Name()]++
	ord := fr.callOrd["pre:"+fn.Name()]
	// A callee whose contract promises nothing to its caller (no ensures, no frame; only its own freedom from run-time panics
	// is proved under its requires) called from a `nosafety` function: the caller's contract speaks about executions that do
	// not panic, a violated safety precondition can only make the callee panic, and nothing of the callee's contract is
	// assumed afterwards (the heap is havocked). The call site is reported as unchecked instead of raising obligations that
	// say nothing about the caller's property.
	safetyOnly := tr.contract != nil && tr.contract.NoSafety && len(ct.Ensures) == 0 && !ct.ModSet && (ct.Alloc == nil || tr.contract.Alloc == nil)
	if safetyOnly && len(ct.Requires) > 0 {
		tr.trust("call of " + funcDisplay(fn) + " from a nosafety function: the callee's safety preconditions are not checked at this call site (its contract has no postcondition to rely on; a violated precondition means a run-time panic, which is outside the caller's contract)")
	}
	for i, r := range ct.Requires {
		if safetyOnly {
			break
		}
		t, err := env.EvalBool(r.Expr)
		if err != nil {
			tr.specError(r, err)
			continue
		}
		lbl := r.Label
		if lbl == "" {
			lbl = fmt.Sprint(i)
		}
		tr.obligeNamed("pre@"+fn.Name(), fmt.Sprintf("%d.%s", ord, lbl), site.Pos(), t, "precondition of "+funcDisplay(fn)+": "+r.Src)
	}
	post := pre.clone()
	envPre := tr.calleeEnv(fn, ct, args, pre, pre)
	if ct.ModSet {
		items, _ := tr.evalModifies(envPre, ct)
		tr.applyModifies(post, items)
		if cc := site.(ssa.CallInstruction); cc != nil && len(ct.Modifies) > 0 {
			for i, a := range cc.Common().Args {
				if i < len(args) && isPtr(a.Type()) && len(args[i]) == 2 {
					tr.typeFrameCheck(fr, site.Pos(), rootOf(a), args[i][0])
				}
			}
		}
	} else {
		tr.note("callee contract without modifies clause (heap havocked): " + funcDisplay(fn))
		logLen := tr.get(post, "ev.len")
		tr.havocStateBy(post, "callee "+fn.Name(), fn)
		if !tr.P.mayEffect(fn, "devwrite") {
			tr.assumeNoWriteSince(post, logLen, "events appended by a callee that cannot reach WriteAt are not WRITE events")
		}
	}
	tr.bumpAlloc(post)
	res := tr.freshVal(fn.Signature.Results(), "r_"+fn.Name())
	env2 := tr.calleeEnv(fn, ct, args, pre, post)
	// functional postconditions (`retN == e`, e free of results) define the result instead of constraining a fresh variable
	tr.defineResults(env2, fn.Signature, ct, res)
	bindResults(env2, fn.Signature, res)
	reach := fr.reach[fr.cur]
	for _, e := range ct.Ensures {
		t, err := env2.EvalBool(e.Expr)
		if err != nil {
			tr.specError(e, err)
			continue
		}
		tr.assume(f.Implies(reach, t), "postcondition of "+funcDisplay(fn)+": "+e.Src)
	}
	// effects declared by the callee propagate to the caller
	tr.calleeEffects(fr, site, fn, ct, tr.calleeEnv(fn, ct, args, pre, pre))
	if ct.Trusted {
		tr.trust("trusted contract of " + funcDisplay(fn))
	}
	fr.st = post
	return res
}

func (tr *Tr) calleeEffects(fr *Frame, site ssa.Instruction, fn *ssa.Function, ct *Contract, envPre *Env) {
	top := tr.frames[0]
	if top.contract == nil {
		return
	}
	for _, e := range top.contract.Effects {
		if e == "devwrite" {
			// forbids direct WriteAt calls in the body; writes of a callee under contract are specified by that contract
			continue
		}
		declared := false
		for _, ce := range ct.Effects {
			if ce == e {
				declared = true
			}
		}
		if w := ct.EffectWhen[e]; declared && w != nil {
			// the callee promises the absence of e only under a condition on its entry state: that condition (or the
			// caller's own licence for e) must hold here
			c, err := envPre.EvalBool(w.Expr)
			if err != nil {
				tr.specError(*w, err)
				continue
			}
			tr.obligeNamed("effect", e+"@"+fn.Name()+".when", site.Pos(), tr.f.Or(c, tr.effectGoal(e)), "callee "+funcDisplay(fn)+" avoids effect "+e+" only when: "+w.Src)
			continue
		}
		if !declared && tr.P.mayEffect(fn, e) {
			tr.obligeNamed("effect", e+"@"+fn.Name(), site.Pos(), tr.effectGoal(e), "callee "+funcDisplay(fn)+" may reach a source of effect "+e+" and does not promise its absence")
		}
	}
}

func (tr *Tr) callIfaceContract(fr *Frame, site ssa.Instruction, c *ssa.CallCommon, ct *Contract, recv Val, args []Val, rt types.Type) Val {
	f := tr.f
	pre := fr.st
	sig := c.Method.Type().(*types.Signature)
	mkEnv := func(st0, st1 *State) *Env {
		pkg := c.Method.Pkg()
		if tp := tr.P.tpkgs[ct.PkgPath]; tp != nil && tp.Types != nil {
			pkg = tp.Types
		}
		env := &Env{tr: tr, pkg: pkg, vars: map[string]EVal{}, macros: map[string]ast.Expr{}, st: st1, old: st0}
		env.vars["self"] = EVal{V: recv, T: c.Value.Type()}
		for i := 0; i < sig.Params().Len(); i++ {
			p := sig.Params().At(i)
			nm := p.Name()
			if nm == "" || nm == "_" {
				nm = fmt.Sprintf("arg%d", i)
			}
			env.vars[nm] = EVal{V: args[i], T: p.Type()}
			env.vars[fmt.Sprintf("arg%d", i)] = EVal{V: args[i], T: p.Type()}
		}
		for _, l := range ct.Lets {
			env.macros[l.Label] = l.Expr
		}
		env.allocAtEntry = tr.get(st0, "alloc")
		return env
	}
	env := mkEnv(pre, pre)
	env.old = nil
	key := "pre:" + c.Method.Name()
	fr.callOrd[key]++
	for i, r := range ct.Requires {
		t, err := env.EvalBool(r.Expr)
		if err != nil {
			tr.specError(r, err)
			continue
		}
		lbl := r.Label
		if lbl == "" {
			lbl = fmt.Sprint(i)
		}
		tr.obligeNamed("pre@"+c.Method.Name(), fmt.Sprintf("%d.%s", fr.callOrd[key], lbl), site.Pos(), t, "precondition of interface method "+c.Method.Name()+": "+r.Src)
	}
	post := pre.clone()
	if ct.ModSet {
		items, _ := tr.evalModifies(mkEnv(pre, pre), ct)
		tr.applyModifies(post, items)
	} else {
		tr.havocState(post, "iface "+c.Method.Name())
	}
	tr.bumpAlloc(post)
	res := tr.freshVal(sig.Results(), "r_"+c.Method.Name())
	if ct.Pure && ct.ModSet && len(ct.Modifies) == 0 && sig.Params().Len() == 0 && sig.Results().Len() == 1 {
		// `pure` accessor of a repository interface: one value per (receiver, heap contents); the same term is used by
		// m(x, "name") in specifications evaluated in a state with the same heap
		res = tr.pureAccessorVal(pre, c.Method.Name(), recv, sig.Results().At(0).Type())
		tr.trust("pure interface accessor " + ct.FnName + ": its result is a function of the receiver and the heap (implementations are proved to modify nothing; determinism is assumed)")
	}
	env2 := mkEnv(pre, post)
	bindResults(env2, sig, res)
	reach := fr.reach[fr.cur]
	for _, e := range ct.Ensures {
		t, err := env2.EvalBool(e.Expr)
		if err != nil {
			tr.specError(e, err)
			continue
		}
		tr.assume(f.Implies(reach, t), "interface contract "+ct.FnName+": "+e.Src)
	}
	tr.trust("interface contract " + ct.FnName + " (assumed at the call; " + tr.P.ifaceImplStatus(c, ct) + ")")
	fr.st = post
	return res
}

// at-call assertions of the enclosing contract
func (tr *Tr) atCallAsserts(fr *Frame, site ssa.Instruction, sf *ssa.Function, c *ssa.CallCommon, args []Val) {
	qn := ""
	if sf.Pkg != nil && sf.Signature.Recv() == nil && sf.Parent() == nil {
		qn = sf.Pkg.Pkg.Name() + "." + sf.Name()
	}
	tr.atCallAssertsQ(fr, site, sf.Name(), qn, c, args)
}

func (tr *Tr) atCallAssertsName(fr *Frame, site ssa.Instruction, nm string, c *ssa.CallCommon, args []Val) {
	tr.atCallAssertsQ(fr, site, nm, "", c, args)
}

// atCallAssertsName: call-site assertions addressed by callee (or interface method) name and ordinal.
// A callee written pkg.Func (package name, no receiver) is matched exactly and counted on its own, so that e.g.
// file.New and errors.New do not share ordinals.
func (tr *Tr) atCallAssertsQ(fr *Frame, site ssa.Instruction, nm, qn string, c *ssa.CallCommon, args []Val) {
	if fr.contract == nil || len(fr.contract.AtCalls) == 0 {
		return
	}
	fr.callOrd["at:"+nm]++
	ordShort := fr.callOrd["at:"+nm] - 1
	ordQ := -1
	if qn != "" {
		fr.callOrd["atq:"+qn]++
		ordQ = fr.callOrd["atq:"+qn] - 1
	}
	ord := ordShort
	listed := false
	matched := false
	for _, ac := range fr.contract.AtCalls {
		short := ac.Callee
		i := strings.LastIndex(short, ".")
		if i > 0 && !strings.HasPrefix(short, "(") {
			// package-qualified
			if short != qn {
				continue
			}
			ord = ordQ
		} else {
			if i >= 0 {
				short = short[i+1:]
			}
			if short != nm {
				continue
			}
			ord = ordShort
		}
		listed = true
		if ac.Ordinal != ord {
			continue
		}
		matched = true
		env := tr.envFor(fr, nil, fr.st)
		for i := range args {
			if i < len(c.Args) {
				env.vars["arg"+fmt.Sprint(i)] = EVal{V: args[i], T: c.Args[i].Type()}
			}
		}
		for i, a := range ac.Asserts {
			t, err := env.EvalBool(a.Expr)
			if err != nil {
				tr.specError(a, err)
				continue
			}
			lbl := a.Label
			if lbl == "" {
				lbl = fmt.Sprint(i)
			}
			tr.obligeNamed("assert@"+nm, fmt.Sprintf("%d.%s", ord, lbl), site.Pos(), t, "call-site assertion: "+a.Src)
		}
	}
	if listed && !matched {
		// the contract enumerates the call sites of this callee: an additional one has no specification
		tr.obligeNamed("assert@"+nm, fmt.Sprintf("%d.unlisted", ord), site.Pos(), tr.f.False(), "call site #"+fmt.Sprint(ord)+" of "+nm+" is not covered by the contract's call-site assertions")
	}
}

// callMayWrite: can this call append a WRITE event (reach WriteAt / Truncate on a device writer)? Syntactic, over-approximate.
func (tr *Tr) callMayWrite(fr *Frame, c *ssa.CallCommon) bool {
	if _, ok := c.Value.(*ssa.Builtin); ok {
		return false
	}
	if c.IsInvoke() {
		name := c.Method.Name()
		if name == "WriteAt" || name == "Truncate" {
			return true
		}
		if tr.repoInterface(c.Value.Type()) {
			return tr.repoMethodMayWrite(name)
		}
		return false
	}
	if fr != nil {
		if ci, ok := fr.closures[c.Value]; ok {
			return tr.P.mayEffect(ci.fn, "devwrite")
		}
	}
	sf := c.StaticCallee()
	if sf == nil {
		return tr.P.dynMayEffectV(c.Value, "devwrite")
	}
	return tr.P.mayEffect(sf, "devwrite")
}

// assumeNoWriteSince: the events appended since the log had length oldLen are not WRITE events.
func (tr *Tr) assumeNoWriteSince(st *State, oldLen *Term, why string) {
	f := tr.f
	k := f.BoundVar("k", GhostIdxSort())
	kind := tr.get(st, "ev.kind")
	tr.assume(f.Forall([]*Term{k}, f.Implies(f.And(f.ILe(oldLen, k), f.ILt(k, tr.get(st, "ev.len"))), f.Neq(f.Select(kind, k), f.BVi(64, evWrite))), []*Term{f.Select(kind, k)}), why)
}

// ---------- static effects of a call, for loop havoc

type writeEff struct {
	v    ssa.Value
	keys []string
}

type callEff struct {
	all, allocs, events bool
	writes              []writeEff
	maps                []types.Type
}

func (tr *Tr) callEffects(fr *Frame, c *ssa.CallCommon) callEff {
	return tr.callEffectsD(fr, c, 0, nil)
}

func (tr *Tr) callEffectsD(fr *Frame, c *ssa.CallCommon, depth int, argMap map[ssa.Value]ssa.Value) callEff {
	mapv := func(v ssa.Value) ssa.Value {
		if argMap == nil {
			return v
		}
		r := rootOf(v)
		if m, ok := argMap[r]; ok {
			return m
		}
		if _, isParam := r.(*ssa.Parameter); isParam {
			return nil
		}
		if _, isFV := r.(*ssa.FreeVar); isFV {
			return nil
		}
		return v
	}
	var eff callEff
	addW := func(v ssa.Value, keys []string) {
		mv := mapv(v)
		if mv == nil {
			eff.all = true
			return
		}
		eff.writes = append(eff.writes, writeEff{mv, keys})
	}
	if b, ok := c.Value.(*ssa.Builtin); ok {
		switch b.Name() {
		case "append":
			eff.allocs = true
			addW(c.Args[0], keysOfType(elemType(c.Args[0].Type())))
		case "copy":
			addW(c.Args[0], keysOfType(elemType(c.Args[0].Type())))
		case "delete":
			eff.maps = append(eff.maps, c.Args[0].Type())
		case "clear":
			eff.all = true
		}
		return eff
	}
	if c.IsInvoke() {
		name := c.Method.Name()
		if ic := tr.ifaceContract(c); ic != nil {
			if !ic.ModSet {
				eff.all = true
			} else {
				eff.allocs = true
				for _, m := range ic.Modifies {
					if id, ok := m.Expr.(*ast.Ident); ok && id.Name == "W" {
						eff.events = true
						continue
					}
					// root identifier
					root := rootIdent(m.Expr)
					sig := c.Method.Type().(*types.Signature)
					found := false
					for i := 0; i < sig.Params().Len(); i++ {
						if sig.Params().At(i).Name() == root || fmt.Sprintf("arg%d", i) == root {
							addW(c.Args[i], heapKeys)
							found = true
						}
					}
					if root == "self" {
						addW(c.Value, heapKeys)
						found = true
					}
					if !found {
						eff.all = true
					}
				}
			}
			return eff
		}
		switch name {
		case "Read", "ReadAt":
			if len(c.Args) >= 1 && isSlice(c.Args[0].Type()) {
				addW(c.Args[0], []string{"8"})
				eff.events = true
				eff.allocs = true
				return eff
			}
		case "WriteAt", "Write", "Sync", "Seek", "Writable", "Error", "Close", "Unwrap":
			eff.events = true
			eff.allocs = true
			return eff
		case "Lock", "Unlock", "RLock", "RUnlock":
			return eff
		}
		if !tr.repoInterface(c.Value.Type()) {
			if len(c.Args) == 0 && pureAccessor(name) {
				return eff
			}
			for _, a := range c.Args {
				if isSlice(a.Type()) || isPtr(a.Type()) || isIface(a.Type()) {
					addW(a, heapKeys)
				}
			}
			addW(c.Value, heapKeys)
			eff.allocs = true
			eff.events = true
			return eff
		}
		eff.all = true
		return eff
	}
	var callee *ssa.Function
	var bindings []ssa.Value
	if mc, ok := c.Value.(*ssa.MakeClosure); ok {
		callee = mc.Fn.(*ssa.Function)
		bindings = mc.Bindings
	} else {
		callee = c.StaticCallee()
	}
	if callee == nil {
		eff.all = true
		return eff
	}
	name := callee.String()
	if strings.HasPrefix(name, "(encoding/binary.littleEndian).") || strings.HasPrefix(name, "(encoding/binary.bigEndian).") {
		if strings.HasPrefix(callee.Name(), "Put") {
			addW(c.Args[1], []string{"8"})
		}
		if strings.HasPrefix(callee.Name(), "Append") {
			eff.allocs = true
			addW(c.Args[1], []string{"8"})
		}
		return eff
	}
	if m := stdEffects(name); m != nil {
		eff.allocs = true
		for _, i := range m {
			addW(c.Args[i], heapKeys)
		}
		return eff
	}
	if ct := tr.P.contracts[callee]; ct != nil && !ct.Inline {
		if !ct.ModSet {
			eff.all = true
			return eff
		}
		eff.allocs = true
		for _, m := range ct.Modifies {
			if id, ok := m.Expr.(*ast.Ident); ok && id.Name == "W" {
				eff.events = true
				continue
			}
			root := rootIdent(m.Expr)
			found := false
			for i, p := range callee.Params {
				if p.Name() == root {
					// modifies rooted at a parameter; if the item dereferences a field first (p.f[:]) the region is unknown
					if derefDepth(m.Expr) > 1 {
						eff.all = true
					} else {
						addW(c.Args[i], modKeys(p.Type(), m.Expr))
					}
					found = true
				}
			}
			if !found {
				eff.all = true
			}
		}
		return eff
	}
	if tr.P.isRepoFunc(callee) && depth < inlineMaxDepth {
		n := 0
		for _, b := range callee.Blocks {
			n += len(b.Instrs)
		}
		if n <= inlineMaxInstrs || bindings != nil {
			am := map[ssa.Value]ssa.Value{}
			for i, p := range callee.Params {
				if mv := mapv(c.Args[i]); mv != nil {
					am[p] = rootOf(mv)
				}
			}
			for i, fv := range callee.FreeVars {
				if i < len(bindings) {
					if mv := mapv(bindings[i]); mv != nil {
						am[fv] = rootOf(mv)
					}
				}
			}
			return tr.bodyEffects(fr, callee, depth+1, am)
		}
	}
	if !tr.P.isRepoFunc(callee) {
		if callee.Pkg != nil && purePkg(callee.Pkg.Pkg.Path()) {
			eff.allocs = true
			return eff
		}
		eff.allocs = true
		for _, a := range c.Args {
			if isSlice(a.Type()) || isPtr(a.Type()) || isIface(a.Type()) || isMap(a.Type()) {
				addW(a, heapKeys)
			}
		}
		return eff
	}
	eff.all = true
	return eff
}

func (tr *Tr) bodyEffects(fr *Frame, fn *ssa.Function, depth int, argMap map[ssa.Value]ssa.Value) callEff {
	var eff callEff
	for _, b := range fn.Blocks {
		for _, in := range b.Instrs {
			switch x := in.(type) {
			case *ssa.Store:
				r := rootOf(x.Addr)
				switch r.(type) {
				case *ssa.Alloc, *ssa.MakeSlice:
					continue
				}
				if m, ok := argMap[r]; ok {
					eff.writes = append(eff.writes, writeEff{m, keysOfType(x.Val.Type())})
				} else if _, ok := r.(*ssa.Global); ok {
					eff.writes = append(eff.writes, writeEff{r, keysOfType(x.Val.Type())})
				} else {
					eff.all = true
				}
			case *ssa.Alloc, *ssa.MakeSlice, *ssa.MakeMap, *ssa.MakeInterface, *ssa.MakeClosure, *ssa.Convert:
				eff.allocs = true
			case *ssa.MapUpdate:
				eff.maps = append(eff.maps, x.Map.Type())
			case *ssa.Go, *ssa.Defer:
				eff.all = true
			case ssa.CallInstruction:
				e := tr.callEffectsD(fr, x.Common(), depth, argMap)
				eff.all = eff.all || e.all
				eff.allocs = eff.allocs || e.allocs
				eff.events = eff.events || e.events
				for _, w := range e.writes {
					r := rootOf(w.v)
					switch r.(type) {
					case *ssa.Alloc, *ssa.MakeSlice:
						if in, ok := r.(ssa.Instruction); ok && in.Parent() == fn {
							continue
						}
					}
					eff.writes = append(eff.writes, w)
				}
				eff.maps = append(eff.maps, e.maps...)
			}
		}
	}
	return eff
}

func rootIdent(e ast.Expr) string {
	for {
		switch x := e.(type) {
		case *ast.Ident:
			return x.Name
		case *ast.SelectorExpr:
			e = x.X
		case *ast.IndexExpr:
			e = x.X
		case *ast.SliceExpr:
			e = x.X
		case *ast.StarExpr:
			e = x.X
		case *ast.ParenExpr:
			e = x.X
		case *ast.CallExpr:
			if len(x.Args) > 0 {
				e = x.Args[0]
			} else {
				return ""
			}
		default:
			return ""
		}
	}
}

// derefDepth: number of memory indirections in a modifies item (p.f -> 1, *p -> 1, b[:] -> 1, p.f[:] -> 2)
func derefDepth(e ast.Expr) int {
	switch x := e.(type) {
	case *ast.SelectorExpr:
		return derefDepth(x.X) + 1
	case *ast.SliceExpr:
		return derefDepth(x.X) + 1
	case *ast.IndexExpr:
		return derefDepth(x.X) + 1
	case *ast.StarExpr:
		return derefDepth(x.X) + 1
	case *ast.ParenExpr:
		return derefDepth(x.X)
	case *ast.CallExpr:
		if len(x.Args) > 0 {
			return derefDepth(x.Args[0]) + 1
		}
	}
	return 0
}

var _ = constant.MakeBool

// defineResults looks for top-level conjuncts `retN == e` in the ensures clauses where e does not mention any result,
// and replaces the fresh result leaves by e's value (same meaning, but syntactically transparent to the simplifier).
func (tr *Tr) defineResults(env *Env, sig *types.Signature, ct *Contract, res Val) {
	names := map[string]int{}
	offs := []int{}
	off := 0
	for i := 0; i < sig.Results().Len(); i++ {
		r := sig.Results().At(i)
		names[fmt.Sprintf("ret%d", i)] = i
		if r.Name() != "" && r.Name() != "_" {
			names[r.Name()] = i
		}
		offs = append(offs, off)
		off += nleaves(r.Type())
	}
	mentionsResult := func(e ast.Expr) bool {
		found := false
		ast.Inspect(e, func(n ast.Node) bool {
			if id, ok := n.(*ast.Ident); ok {
				if _, isRes := names[id.Name]; isRes {
					found = true
				}
				if id.Name == "fresh" {
					found = true
				}
			}
			return !found
		})
		return found
	}
	var conj func(e ast.Expr)
	conj = func(e ast.Expr) {
		switch x := e.(type) {
		case *ast.ParenExpr:
			conj(x.X)
		case *ast.BinaryExpr:
			if x.Op == token.LAND {
				conj(x.X)
				conj(x.Y)
				return
			}
			if x.Op != token.EQL {
				return
			}
			lhs, rhs := x.X, x.Y
			id, ok := lhs.(*ast.Ident)
			if !ok {
				lhs, rhs = rhs, lhs
				id, ok = lhs.(*ast.Ident)
			}
			if !ok {
				return
			}
			ri, isRes := names[id.Name]
			if !isRes || mentionsResult(rhs) {
				return
			}
			v, err := env.Eval(rhs)
			if err != nil {
				return
			}
			rt := sig.Results().At(ri).Type()
			if v.C != nil {
				func() {
					defer func() { _ = recover() }()
					v = env.asType(v, rt)
				}()
			}
			ls := shape(rt)
			if v.C != nil || v.Ghost != "" || len(v.V) != len(ls) {
				return
			}
			for k := range ls {
				if v.V[k].S != ls[k].S {
					return
				}
			}
			for k := range ls {
				res[offs[ri]+k] = v.V[k]
			}
		}
	}
	for _, e := range ct.Ensures {
		conj(e.Expr)
	}
}

// modKeys: heap keys a modifies item rooted at a parameter of type t can touch.
func modKeys(t types.Type, e ast.Expr) []string {
	switch x := e.(type) {
	case *ast.ParenExpr:
		return modKeys(t, x.X)
	case *ast.SliceExpr, *ast.IndexExpr:
		if el := elemType(t); el != nil && isSlice(t) {
			return keysOfType(el)
		}
	case *ast.StarExpr:
		if pt, ok := t.Underlying().(*types.Pointer); ok {
			return keysOfType(pt.Elem())
		}
	case *ast.SelectorExpr:
		if pt, ok := t.Underlying().(*types.Pointer); ok {
			if st, ok := pt.Elem().Underlying().(*types.Struct); ok {
				for i := 0; i < st.NumFields(); i++ {
					if st.Field(i).Name() == x.Sel.Name {
						return keysOfType(st.Field(i).Type())
					}
				}
			}
		}
	}
	return heapKeys
}

// usesStream: does the contract of the function under verification speak about stream()/streamlen()?
func (tr *Tr) usesStream() bool {
	if tr.streamUse == 0 {
		tr.streamUse = 1
		if c := tr.contract; c != nil {
			var all []Clause
			all = append(all, c.Requires...)
			all = append(all, c.Ensures...)
			all = append(all, c.AtReturn...)
			for _, l := range c.Loops {
				all = append(all, l.Invariants...)
				all = append(all, l.Exits...)
			}
			for _, ac := range c.AtCalls {
				all = append(all, ac.Asserts...)
			}
			for _, cl := range all {
				if strings.Contains(cl.Src, "stream(") || strings.Contains(cl.Src, "streamlen(") {
					tr.streamUse = 2
				}
			}
		}
	}
	return tr.streamUse == 2
}

func (tr *Tr) ioEOF() Val { return tr.ioGlobal("EOF") }

func (tr *Tr) ioGlobal(name string) Val {
	pkg := tr.P.prog.ImportedPackage("io")
	if pkg == nil {
		return nil
	}
	g, ok := pkg.Members[name].(*ssa.Global)
	if !ok {
		return nil
	}
	v, ok := tr.immutableGlobal(g)
	if !ok {
		return nil
	}
	return v
}
