package main

import (
	"go/types"
	"sort"
)

// State: named symbolic components (heaps, allocation counter, ghost log, ghost maps).
// A component that is absent denotes its entry variable.
type State struct {
	C map[string]*Term
}

func (s *State) clone() *State {
	n := &State{C: make(map[string]*Term, len(s.C))}
	for k, v := range s.C {
		n.C[k] = v
	}
	return n
}

// component sorts by name prefix
func (tr *Tr) compSort(name string) *Sort {
	if s, ok := tr.compSorts[name]; ok {
		return s
	}
	panic("unknown state component " + name)
}

func (tr *Tr) declComp(name string, s *Sort) {
	if o, ok := tr.compSorts[name]; ok && o != s {
		panic("component redeclared with other sort: " + name)
	}
	tr.compSorts[name] = s
}

func (tr *Tr) get(st *State, name string) *Term {
	if v, ok := st.C[name]; ok {
		return v
	}
	return tr.f.Var("E."+name, tr.compSort(name))
}

func (tr *Tr) set(st *State, name string, v *Term) {
	if v.S != tr.compSort(name) {
		panic("component sort mismatch on set: " + name + " " + v.S.String())
	}
	st.C[name] = v
}

// merge states under pairwise-exclusive conditions.
func (tr *Tr) merge(sts []*State, conds []*Term) *State {
	if len(sts) == 1 {
		return sts[0].clone()
	}
	keys := map[string]bool{}
	for _, s := range sts {
		for k := range s.C {
			keys[k] = true
		}
	}
	ks := make([]string, 0, len(keys))
	for k := range keys {
		ks = append(ks, k)
	}
	sort.Strings(ks)
	out := &State{C: map[string]*Term{}}
	for _, k := range ks {
		t := tr.get(sts[len(sts)-1], k)
		for i := len(sts) - 2; i >= 0; i-- {
			t = tr.mergeTerm(conds[i], tr.get(sts[i], k), t, 0)
		}
		out.C[k] = t
	}
	return out
}

// mergeTerm builds ite(c, a, b) for state components, keeping store chains linear: two chains over a common base
// that write the same indices are merged element-wise; a chain that extends the other is merged per extra store.
func (tr *Tr) mergeTerm(c, a, b *Term, depth int) *Term {
	f := tr.f
	if a == b {
		return a
	}
	if a.S.K != KArr || depth > 64 {
		return f.Ite(c, a, b)
	}
	// same index on top of both chains
	if a.Op == "store" && b.Op == "store" && a.Args[1] == b.Args[1] {
		base := tr.mergeTerm(c, a.Args[0], b.Args[0], depth+1)
		if base.Op != "ite" || a.Args[0] == b.Args[0] {
			return f.Store(base, a.Args[1], tr.mergeTerm(c, a.Args[2], b.Args[2], depth+1))
		}
		return f.Ite(c, a, b)
	}
	// a extends b: a = store(...store(b, i1, v1)..., in, vn)
	if n := chainOver(a, b); n > 0 && n <= 48 {
		return tr.extendMerge(c, a, b, true)
	}
	if n := chainOver(b, a); n > 0 && n <= 48 {
		return tr.extendMerge(c, b, a, false)
	}
	return f.Ite(c, a, b)
}

// chainOver: number of stores on top of base in chain t (0 if base is not below t).
func chainOver(t, base *Term) int {
	n := 0
	for t.Op == "store" {
		t = t.Args[0]
		n++
		if t == base {
			return n
		}
		if n > 64 {
			return 0
		}
	}
	return 0
}

// extendMerge: long = stores over short. Result: the same stores over short, each value guarded by the condition.
func (tr *Tr) extendMerge(c, long, short *Term, longWhenTrue bool) *Term {
	f := tr.f
	var idx, val []*Term
	for t := long; t != short; t = t.Args[0] {
		idx = append(idx, t.Args[1])
		val = append(val, t.Args[2])
	}
	cur := short
	for i := len(idx) - 1; i >= 0; i-- {
		old := f.Select(cur, idx[i])
		var v *Term
		if val[i].S.K == KArr {
			if longWhenTrue {
				v = tr.mergeTerm(c, val[i], old, 1)
			} else {
				v = tr.mergeTerm(c, old, val[i], 1)
			}
		} else if longWhenTrue {
			v = f.Ite(c, val[i], old)
		} else {
			v = f.Ite(c, old, val[i])
		}
		cur = f.Store(cur, idx[i], v)
	}
	return cur
}

// ---------- heap

func heapComp(k string) string { return "H" + k }

func (tr *Tr) initComps() {
	for _, k := range heapKeys {
		tr.declComp(heapComp(k), ArrS(S64, ArrS(S64, heapElemSort(k))))
	}
	tr.declComp("alloc", S64)
	tr.declComp("ev.len", GhostIdxSort())
	tr.declComp("wcount", ArrS(S64, S64))
	tr.declComp("rcount", ArrS(S64, S64))
	for _, n := range []string{"ev.kind", "ev.dev", "ev.off", "ev.n", "ev.boff", "ev.epoch", "ev.res", "ev.err"} {
		tr.declComp(n, ArrS(GhostIdxSort(), S64))
	}
	tr.declComp("ev.buf", ArrS(GhostIdxSort(), ArrS(S64, S8)))
	tr.declComp("epoch", S64)
}

func (tr *Tr) heapSel(st *State, s *Sort, reg, off *Term) *Term {
	h := tr.get(st, heapComp(heapKey(s)))
	return tr.f.Select(tr.f.Select(h, reg), off)
}

func (tr *Tr) heapStore(st *State, s *Sort, reg, off, v *Term) {
	name := heapComp(heapKey(s))
	h := tr.get(st, name)
	inner := tr.f.Select(h, reg)
	tr.set(st, name, tr.f.Store(h, reg, tr.f.Store(inner, off, v)))
}

func (tr *Tr) inner(st *State, key string, reg *Term) *Term {
	return tr.f.Select(tr.get(st, heapComp(key)), reg)
}

func (tr *Tr) setInner(st *State, key string, reg, arr *Term) {
	name := heapComp(key)
	tr.set(st, name, tr.f.Store(tr.get(st, name), reg, arr))
}

func (tr *Tr) loadLeaves(st *State, ls []leaf, reg, off *Term) Val {
	out := make(Val, len(ls))
	for i, l := range ls {
		out[i] = tr.heapSel(st, l.S, reg, tr.f.AddC(off, int64(i)))
	}
	return out
}

func (tr *Tr) storeLeaves(st *State, ls []leaf, reg, off *Term, v Val) {
	for i, l := range ls {
		if i >= len(v) {
			break
		}
		tr.heapStore(st, l.S, reg, tr.f.AddC(off, int64(i)), v[i])
	}
}

// fresh region from the allocation counter. Regions at or above the counter have never been written, so they read
// as zero in every heap ("unallocated memory is zero" — an invariant of every state, instantiated here for the new region).
func (tr *Tr) allocRegion(st *State) *Term { return tr.allocTyped(st, nil) }

// typeTag: ghost type tag of a region (the type it was allocated with).
func typeTag(t types.Type) uint64 { return strHash("rtype:"+types.TypeString(t, nil)) | 1 }

func (tr *Tr) rtype(reg *Term) *Term { return tr.f.App("rtype", S64, reg) }

// allocTyped allocates a region and records the type it was allocated with (regions are typed: an object allocated as T
// is never also a backing array or an object of another type).
func (tr *Tr) allocTyped(st *State, t types.Type) *Term {
	a := tr.allocRegion0(st)
	if t != nil {
		// guarded by the path condition: exclusive paths reuse the same region numbers for different objects
		g := tr.f.True()
		if len(tr.frames) > 0 {
			if fr := tr.fr(); fr.cur != nil {
				g = fr.reach[fr.cur]
			}
		}
		tr.assumes = append(tr.assumes, Assumption{T: tr.f.Implies(g, tr.f.Eq(tr.rtype(a), tr.f.BVu(64, typeTag(t)))), Why: "allocation type of a fresh region"})
	}
	return a
}

func (tr *Tr) allocRegion0(st *State) *Term {
	a := tr.get(st, "alloc")
	tr.nonNil[a.id] = true
	if base, _ := splitAdd(a); base != nil && base.Op == "var" {
		if _, ok := tr.regionRank[a]; !ok {
			tr.allocSeq++
			tr.regionRank[a] = tr.allocSeq
		}
	}
	tr.set(st, "alloc", tr.f.AddC(a, 1))
	for _, k := range heapKeys {
		es := heapElemSort(k)
		var z *Term
		if es == SBool {
			z = tr.f.False()
		} else {
			z = tr.f.BVi(es.W, 0)
		}
		cur := tr.inner(st, k, a)
		za := tr.f.ConstArr(ArrS(S64, es), z)
		if cur != za {
			tr.assumes = append(tr.assumes, Assumption{T: tr.f.Eq(cur, za), Why: "unallocated memory is zero", Region: a})
		}
	}
	return a
}

func (tr *Tr) zeroLeaf(l leaf) *Term {
	if l.S == SBool {
		return tr.f.False()
	}
	return tr.f.BVi(l.S.W, 0)
}

func (tr *Tr) zeroVal(ls []leaf) Val {
	out := make(Val, len(ls))
	for i, l := range ls {
		out[i] = tr.zeroLeaf(l)
	}
	return out
}
