package main

import (
	"fmt"
	"go/ast"
	"math/big"
	"strings"
	"go/token"
	"go/types"

	"golang.org/x/tools/go/ssa"
)

// ---------- resolving source-level names to SSA values

type localRef struct {
	v      ssa.Value
	isAddr bool
	blk    *ssa.BasicBlock
	idx    int
	obj    types.Object
}

func (tr *Tr) localIndex(fn *ssa.Function) map[string][]localRef {
	if tr.P == nil {
		return nil
	}
	m := map[string][]localRef{}
	for _, b := range fn.Blocks {
		for i, in := range b.Instrs {
			if d, ok := in.(*ssa.DebugRef); ok {
				if id, ok := d.Expr.(interface{ String() string }); ok {
					_ = id
				}
				obj := d.Object()
				if obj == nil {
					continue
				}
				m[obj.Name()] = append(m[obj.Name()], localRef{d.X, d.IsAddr, b, i, obj})
			}
		}
	}
	return m
}

var localIdxCache = map[*ssa.Function]map[string][]localRef{}

func (tr *Tr) lookupLocal(env *Env, name string) (EVal, bool) {
	fr := env.fr
	if fr == nil {
		return EVal{}, false
	}
	fn := fr.fn
	mk := func(v ssa.Value, isAddr bool) (EVal, bool) {
		saved := tr.frames
		// evaluate in the frame fr (it is on the stack when invariants are evaluated)
		val := tr.valIn(fr, v)
		tr.frames = saved
		if isAddr {
			pt := v.Type().Underlying().(*types.Pointer)
			ls := shape(pt.Elem())
			return EVal{V: tr.loadLeaves(env.curState(), ls, val[0], val[1]), T: pt.Elem()}, true
		}
		return EVal{V: val, T: v.Type()}, true
	}
	var hdr *ssa.BasicBlock
	if env.li != nil {
		hdr = env.li.header
		for _, p := range env.li.phis {
			if p.Comment == name {
				return mk(p, false)
			}
		}
	}
	idx := tr.locals(fn)
	refs := idx[name]
	if len(refs) > 0 {
		at := hdr
		if at == nil {
			at = fr.cur
		}
		if at != nil {
			// inside the loop first (uses of a loop-invariant variable)
			if env.li != nil {
				for _, r := range refs {
					if env.li.blocks[r.blk] && r.blk != hdr {
						if definedOutside(r.v, env.li) {
							return mk(r.v, r.isAddr)
						}
					}
				}
			}
			// nearest dominating reference
			for b := at; b != nil; b = b.Idom() {
				var best *localRef
				for k := range refs {
					r := &refs[k]
					// a value computed later in the loop header itself is not available where the invariant is evaluated
					if ins, isIns := r.v.(ssa.Instruction); isIns && hdr != nil && b == hdr && ins.Block() == hdr {
						if _, isPhi := r.v.(*ssa.Phi); !isPhi {
							if _, done := fr.env[r.v]; !done {
								continue
							}
						}
					}
					if r.blk == b && (b != fr.cur || hdr != nil || r.idx < fr.curIdx) {
						if best == nil || r.idx > best.idx {
							best = r
						}
					}
				}
				if best != nil {
					return mk(best.v, best.isAddr)
				}
			}
		}
		// fall back: unique value among all refs (not for return-site assertions: an unassigned local reads as zero there)
		uniq := map[ssa.Value]bool{}
		if env.zeroLocals {
			uniq[nil] = true
			uniq[refs[0].v] = true
		}
		for _, r := range refs {
			uniq[r.v] = true
		}
		if len(uniq) == 1 {
			return mk(refs[0].v, refs[0].isAddr)
		}
	}
	for _, p := range fn.Params {
		if p.Name() == name {
			return mk(p, false)
		}
	}
	if env.zeroLocals && len(refs) > 0 {
		// declared somewhere in the function but not assigned on the way here
		t := refs[0].v.Type()
		if refs[0].isAddr {
			t = t.Underlying().(*types.Pointer).Elem()
		}
		return EVal{V: tr.zeroVal(shape(t)), T: t}, true
	}
	for _, fv := range fn.FreeVars {
		if fv.Name() == name {
			// captured variable: a pointer to the variable
			if _, ok := fv.Type().Underlying().(*types.Pointer); ok {
				return mk(fv, true)
			}
			return mk(fv, false)
		}
	}
	return EVal{}, false
}

func definedOutside(v ssa.Value, li *loopInfo) bool {
	if in, ok := v.(ssa.Instruction); ok {
		return !li.blocks[in.Block()]
	}
	return true
}

func (tr *Tr) locals(fn *ssa.Function) map[string][]localRef {
	if tr.localIdx == nil {
		tr.localIdx = map[*ssa.Function]map[string][]localRef{}
	}
	if m, ok := tr.localIdx[fn]; ok {
		return m
	}
	m := tr.localIndex(fn)
	tr.localIdx[fn] = m
	return m
}

func (tr *Tr) valIn(fr *Frame, v ssa.Value) Val {
	if fr == tr.fr() {
		return tr.val(v)
	}
	tr.frames = append(tr.frames, fr)
	defer func() { tr.frames = tr.frames[:len(tr.frames)-1] }()
	return tr.val(v)
}

// ---------- loops

func (tr *Tr) loopSpec(fr *Frame, li *loopInfo) *LoopSpec {
	if fr.contract == nil {
		return nil
	}
	return fr.contract.Loops[li.ord]
}

// loopHeader is called when the header block is about to be executed; fr.st is the merged entry state.
func (tr *Tr) loopHeader(fr *Frame, li *loopInfo) {
	f := tr.f
	spec := tr.loopSpec(fr, li)
	li.spec = spec
	reach := fr.reach[li.header]
	li.entrySt = fr.st.clone()

	// entry values of the header phis
	entryVals := map[ssa.Value]Val{}
	for _, p := range li.phis {
		entryVals[p] = tr.phiFrom(fr, p, func(pred *ssa.BasicBlock) bool { return !fr.back[[2]int{pred.Index, li.header.Index}] })
	}

	li.entryVals = entryVals
	// 1. invariants on entry
	if spec != nil {
		for i, inv := range spec.Invariants {
			env := tr.envFor(fr, li, fr.st)
			fr.overrides = entryVals
			t, err := env.EvalBool(inv.Expr)
			fr.overrides = nil
			if err != nil {
				tr.specError(inv, err)
				continue
			}
			lbl := inv.Label
			if lbl == "" {
				lbl = fmt.Sprintf("L%d.%d", li.ord, i)
			}
			tr.obligeAt("inv-entry", lbl, li.header.Instrs[0].Pos(), reach, t, "loop invariant on entry: "+inv.Src)
		}
	} else {
		tr.note(fmt.Sprintf("loop %d of %s has no invariant (cut with invariant true)", li.ord, funcDisplay(fr.fn)))
	}

	// 2. havoc
	li.phiVal = map[*ssa.Phi]Val{}
	for _, p := range li.phis {
		// a phi whose back-edge operands are all the phi itself does not change in the loop: keep its entry value
		invariantPhi := true
		for i, e := range p.Edges {
			if fr.back[[2]int{p.Block().Preds[i].Index, p.Block().Index}] && e != ssa.Value(p) {
				invariantPhi = false
			}
		}
		if invariantPhi {
			li.phiVal[p] = entryVals[p]
		} else {
			li.phiVal[p] = tr.freshVal(p.Type(), "L"+fmt.Sprint(li.ord)+"_"+p.Comment)
		}
		fr.env[p] = li.phiVal[p]
	}
	tr.havocLoop(fr, li)
	li.havocSt = fr.st.clone()

	// 3. assume invariants (+ candidate invariants that will be checked like the others)
	if spec != nil {
		for _, inv := range spec.Invariants {
			env := tr.envFor(fr, li, fr.st)
			t, err := env.EvalBool(inv.Expr)
			if err != nil {
				continue
			}
			tr.assume(f.Implies(reach, t), "loop invariant: "+inv.Src)
		}
		if spec.Decreases != nil {
			env := tr.envFor(fr, li, fr.st)
			v, err := env.Eval(spec.Decreases.Expr)
			if err == nil {
				v = env.defaultType(v)
				li.variant = v
			} else {
				tr.specError(*spec.Decreases, err)
			}
		}
	}
	tr.autoInvariants(fr, li, entryVals)
}

func (tr *Tr) phiFrom(fr *Frame, x *ssa.Phi, keep func(pred *ssa.BasicBlock) bool) Val {
	b := x.Block()
	ls := shape(x.Type())
	out := make(Val, len(ls))
	for k := range ls {
		var t *Term
		for i := len(x.Edges) - 1; i >= 0; i-- {
			if !keep(b.Preds[i]) {
				continue
			}
			e, ok := fr.edge[[2]int{b.Preds[i].Index, b.Index}]
			if !ok || e.IsFalse() {
				continue
			}
			ev := tr.val(x.Edges[i])
			if t == nil {
				t = ev[k]
			} else {
				t = tr.f.Ite(e, ev[k], t)
			}
		}
		if t == nil {
			t = tr.f.Fresh("phdead", ls[k].S)
		}
		out[k] = t
	}
	return out
}

func (tr *Tr) envFor(fr *Frame, li *loopInfo, st *State) *Env {
	env := &Env{tr: tr, pkg: fr.fn.Pkg.Pkg, vars: map[string]EVal{}, macros: map[string]ast.Expr{}, st: st, old: tr.entry, fr: fr, li: li}
	if fr == tr.frames[0] {
		env.old = tr.entry
	} else {
		env.old = fr.entrySt
	}
	if fr.contract != nil {
		for _, l := range fr.contract.Lets {
			env.macros[l.Label] = l.Expr
		}
	}
	// parameters are resolved like other locals (a reassigned parameter denotes its current value)
	env.allocAtEntry = tr.get(env.old, "alloc")
	return env
}

func (tr *Tr) specError(c Clause, err error) {
	tr.specErrs = append(tr.specErrs, fmt.Sprintf("%s: %v  [%s]", c.Where, err, c.Src))
}

// loopBackEdge: state at the latch is fr.st; check invariants with phis bound to the back-edge values.
func (tr *Tr) loopBackEdge(fr *Frame, li *loopInfo, latch *ssa.BasicBlock, edge *Term) {
	if li == nil || edge == nil || edge.IsFalse() {
		return
	}
	f := tr.f
	back := map[ssa.Value]Val{}
	for _, p := range li.phis {
		for i, pred := range p.Block().Preds {
			if pred == latch {
				back[p] = tr.val(p.Edges[i])
			}
		}
	}
	pos := token.NoPos
	if len(latch.Instrs) > 0 {
		pos = latch.Instrs[len(latch.Instrs)-1].Pos()
	}
	if !pos.IsValid() {
		pos = li.header.Instrs[0].Pos()
	}
	if li.spec != nil {
		for i, inv := range li.spec.Invariants {
			env := tr.envFor(fr, li, fr.st)
			fr.overrides = back
			t, err := env.EvalBool(inv.Expr)
			fr.overrides = nil
			if err != nil {
				tr.specError(inv, err)
				continue
			}
			lbl := inv.Label
			if lbl == "" {
				lbl = fmt.Sprintf("L%d.%d", li.ord, i)
			}
			tr.obligeAt("inv-keep", lbl, pos, edge, t, "loop invariant preserved: "+inv.Src)
		}
		if li.spec.Decreases != nil && li.variant.V != nil {
			env := tr.envFor(fr, li, fr.st)
			fr.overrides = back
			v, err := env.Eval(li.spec.Decreases.Expr)
			fr.overrides = nil
			if err == nil {
				v = env.defaultType(v)
				var dec *Term
				if v.Ghost == "int" {
					dec = f.And(f.ILe(f.IntC(0), li.variant.V[0]), f.ILt(v.V[0], li.variant.V[0]))
				} else {
					_, sg, _ := intLeaf(v.T)
					if sg {
						dec = f.And(f.SLe(f.BVi(v.V[0].S.W, 0), li.variant.V[0]), f.SLt(v.V[0], li.variant.V[0]))
					} else {
						dec = f.ULt(v.V[0], li.variant.V[0])
					}
				}
				tr.obligeAt("variant", fmt.Sprintf("L%d", li.ord), pos, edge, dec, "loop variant decreases and is bounded below: "+li.spec.Decreases.Src)
			}
		}
	}
	tr.autoInvariantsKeep(fr, li, back, edge, pos)
	// paths through a back edge end here (the cut): nothing else to do
}

// havocLoop: forget everything the loop body may change.
func (tr *Tr) havocLoop(fr *Frame, li *loopInfo) {
	f := tr.f
	fullKeys := map[string]bool{}
	type regHavoc struct {
		key string
		reg *Term
	}
	var regs []regHavoc
	seen := map[string]bool{}
	allocs := false
	events := false
	all := false
	mayWrite := false
	logLen0 := tr.get(fr.st, "ev.len")
	// fields never assigned after construction survive the loop, except for struct types this function itself initialises
	oldHeapL := map[string]*Term{}
	for _, k := range heapKeys {
		oldHeapL[k] = tr.get(fr.st, heapComp(k))
	}
	allocL := tr.get(fr.st, "alloc")
	defer func() { tr.keepImmutableFieldsExcept(fr.st, oldHeapL, allocL, initialisedIn(fr.fn)) }()
	type slotHavoc struct {
		key      string
		reg, off *Term
	}
	var slots []slotHavoc
	newOnly := map[string]bool{} // keys written only in regions allocated during the loop
	typed := map[string][]types.Type{} // keys written only in objects allocated with one of these struct types
	addRoot := func(v ssa.Value, keys []string) {
		root := rootOf(v)
		if in, ok := root.(ssa.Instruction); ok && li.blocks[in.Block()] {
			switch root.(type) {
			case *ssa.Alloc, *ssa.MakeSlice, *ssa.MakeMap:
				// a region allocated in this iteration; earlier iterations' regions may be written through it only
				// by the iteration that allocated them
				for _, k := range keys {
					newOnly[k] = true
				}
				return
			}
			if tr.freshResult(root) {
				for _, k := range keys {
					newOnly[k] = true
				}
				return
			}
			// a pointer to a struct object obtained inside the loop (e.g. an element of a slice of pointers):
			// the write changes only objects allocated with that struct type (checked where the write happens)
			if pt, ok := root.Type().Underlying().(*types.Pointer); ok {
				if _, isStruct := pt.Elem().Underlying().(*types.Struct); isStruct {
					if _, named := pt.Elem().(*types.Named); named {
						for _, k := range keys {
							typed[k] = append(typed[k], pt.Elem())
						}
						if li.typeFramed == nil {
							li.typeFramed = map[string]bool{}
						}
						li.typeFramed[types.TypeString(pt.Elem(), nil)] = true
						return
					}
				}
			}
			for _, k := range keys {
				fullKeys[k] = true
			}
			return
		}
		rv := tr.val(root)
		var reg *Term
		switch {
		case isIface(root.Type()):
			reg = rv[1]
		case len(rv) >= 1:
			reg = rv[0]
		}
		if reg == nil {
			for _, k := range keys {
				fullKeys[k] = true
			}
			return
		}
		for _, k := range keys {
			id := fmt.Sprintf("%s|%d", k, reg.id)
			if !seen[id] {
				seen[id] = true
				regs = append(regs, regHavoc{k, reg})
			}
		}
	}
	keysOf := func(t types.Type) []string {
		m := map[string]bool{}
		for _, l := range shape(t) {
			m[heapKey(l.S)] = true
		}
		var out []string
		for k := range m {
			out = append(out, k)
		}
		return out
	}
	for b := range li.blocks {
		for _, in := range b.Instrs {
			switch x := in.(type) {
			case *ssa.Store:
				// a store to a field at a constant offset of an object known before the loop: only those slots change
				if root, off, ok := constFieldPath(x.Addr); ok && definedOutside(root, li) && isPtr(root.Type()) {
					rv := tr.val(root)
					ls := shape(x.Val.Type())
					for i, lf := range ls {
						slots = append(slots, slotHavoc{key: heapKey(lf.S), reg: rv[0], off: f.AddC(rv[1], int64(off+i))})
					}
				} else {
					addRoot(x.Addr, keysOf(x.Val.Type()))
				}
			case *ssa.Alloc, *ssa.MakeSlice, *ssa.MakeMap, *ssa.MakeInterface, *ssa.MakeClosure, *ssa.Convert:
				allocs = true
			case *ssa.MapUpdate:
				tr.havocMapType(fr.st, x.Map.Type())
			case *ssa.Go, *ssa.Defer:
				all = true
			case ssa.CallInstruction:
				if tr.callMayWrite(fr, x.Common()) {
					mayWrite = true
				}
				eff := tr.callEffects(fr, x.Common())
				if eff.all {
					all = true
				}
				if eff.allocs {
					allocs = true
				}
				if eff.events {
					events = true
				}
				for _, w := range eff.writes {
					addRoot(w.v, w.keys)
				}
				for _, mt := range eff.maps {
					tr.havocMapType(fr.st, mt)
				}
			}
		}
	}
	if all {
		tr.havocState(fr.st, "loop")
		if !mayWrite {
			tr.assumeNoWriteSince(fr.st, logLen0, "no call in the loop body can reach WriteAt: the events it appends are not WRITE events")
		}
		return
	}
	for k := range fullKeys {
		tr.set(fr.st, heapComp(k), f.Fresh("Hloop"+k, tr.compSort(heapComp(k))))
	}
	preAlloc := tr.get(fr.st, "alloc")
	for _, k := range heapKeys {
		if len(typed[k]) == 0 || fullKeys[k] {
			continue
		}
		// regions not allocated with one of the written struct types are unchanged
		old := tr.get(fr.st, heapComp(k))
		nh := f.Fresh("Htyped"+k, old.S)
		r := f.BoundVar("r", S64)
		var isT []*Term
		seenT := map[string]bool{}
		for _, t := range typed[k] {
			if !seenT[t.String()] {
				seenT[t.String()] = true
				isT = append(isT, f.Eq(tr.rtype(r), f.BVu(64, typeTag(t))))
			}
		}
		cond := f.Not(f.Or(isT...))
		if newOnly[k] {
			cond = f.And(cond, f.ULt(r, preAlloc))
		}
		tr.assume(f.Forall([]*Term{r}, f.Implies(cond, f.Eq(f.Select(nh, r), f.Select(old, r))), []*Term{f.Select(nh, r)}),
			"loop stores only into objects of the listed struct types (and objects allocated inside the loop)")
		tags := map[string]bool{}
		for _, t := range typed[k] {
			tags[new(big.Int).SetUint64(typeTag(t)).String()] = true
		}
		tr.frames2[nh] = frameInfo{old: old, maxRank: tr.allocSeq, typed: tags, newToo: newOnly[k]}
		tr.set(fr.st, heapComp(k), nh)
	}
	for _, k := range heapKeys {
		if !newOnly[k] || fullKeys[k] || len(typed[k]) > 0 {
			continue
		}
		// regions that existed before the loop are untouched by stores into loop-allocated objects
		old := tr.get(fr.st, heapComp(k))
		nh := f.Fresh("Hnew"+k, old.S)
		r := f.BoundVar("r", S64)
		tr.assume(f.Forall([]*Term{r}, f.Implies(f.ULt(r, preAlloc), f.Eq(f.Select(nh, r), f.Select(old, r))), []*Term{f.Select(nh, r)}),
			"loop stores only into objects allocated inside the loop: earlier regions unchanged")
		tr.frames2[nh] = frameInfo{old: old, maxRank: tr.allocSeq}
		tr.set(fr.st, heapComp(k), nh)
	}
	for _, r := range regs {
		if fullKeys[r.key] {
			continue
		}
		tr.setInner(fr.st, r.key, r.reg, f.Fresh("Rloop"+r.key, ArrS(S64, heapElemSort(r.key))))
	}
	for _, s := range slots {
		if fullKeys[s.key] {
			continue
		}
		tr.heapStore(fr.st, heapElemSort(s.key), s.reg, s.off, f.Fresh("Sloop"+s.key, heapElemSort(s.key)))
	}
	if allocs {
		tr.bumpAlloc(fr.st)
	}
	if events {
		tr.havocLog(fr.st)
		if !mayWrite {
			tr.assumeNoWriteSince(fr.st, logLen0, "no call in the loop body can reach WriteAt: the events it appends are not WRITE events")
		}
	}
}

// freshResult: v is (an extract of) a call to a function whose contract promises a fresh result.
func (tr *Tr) freshResult(v ssa.Value) bool {
	idx := 0
	if ex, ok := v.(*ssa.Extract); ok {
		idx = ex.Index
		v = ex.Tuple
	}
	call, ok := v.(*ssa.Call)
	if !ok {
		return false
	}
	sf := call.Common().StaticCallee()
	if sf == nil {
		return false
	}
	ct := tr.P.contracts[sf]
	if ct == nil {
		return false
	}
	want := fmt.Sprintf("fresh(ret%d)", idx)
	for _, e := range ct.Ensures {
		if strings.Contains(strings.ReplaceAll(e.Src, " ", ""), want) {
			return true
		}
	}
	return false
}

func (tr *Tr) bumpAlloc(st *State) {
	a := tr.get(st, "alloc")
	n := tr.f.Fresh("alloc", S64)
	tr.assume(tr.f.And(tr.f.ULe(a, n), tr.f.ULt(n, tr.f.BVu(64, 1<<62))), "allocation counter is monotone")
	tr.set(st, "alloc", n)
	// regions allocated in between are unknown but were fresh: nothing to say about their contents
}

// rootOf follows address computations back to the value that determines the region.
func rootOf(v ssa.Value) ssa.Value { return rootOfD(v, 0) }

func rootOfD(v ssa.Value, depth int) ssa.Value {
	for {
		switch x := v.(type) {
		case *ssa.FieldAddr:
			v = x.X
		case *ssa.IndexAddr:
			v = x.X
		case *ssa.Slice:
			v = x.X
		case *ssa.ChangeType:
			v = x.X
		case *ssa.ChangeInterface:
			v = x.X
		case *ssa.Call:
			// append writes into its first argument's region (or into a fresh one)
			if b, ok := x.Call.Value.(*ssa.Builtin); ok && b.Name() == "append" {
				v = x.Call.Args[0]
				continue
			}
			return v
		case *ssa.Phi:
			// all incoming values share one root (e.g. chunk := b / chunk = b[:n])
			if depth > 4 {
				return v
			}
			var r ssa.Value
			for _, e := range x.Edges {
				if e == ssa.Value(x) {
					continue
				}
				er := rootOfD(e, depth+1)
				if er == ssa.Value(x) {
					continue
				}
				if r == nil {
					r = er
				} else if r != er {
					return v
				}
			}
			if r == nil {
				return v
			}
			return r
		default:
			return v
		}
	}
}

// ---------- automatically proposed counter invariants (Houdini-style; every kept candidate is proved)

type autoInv struct {
	phi  *ssa.Phi
	desc string
	mk   func(v Val) *Term
	ok   bool
}

func (tr *Tr) autoInvariants(fr *Frame, li *loopInfo, entryVals map[ssa.Value]Val) {
	f := tr.f
	li.auto = nil
	reach := fr.reach[li.header]
	for _, p := range li.phis {
		w, sg, ok := intLeaf(p.Type())
		if !ok {
			continue
		}
		ev := entryVals[p][0]
		phi := p
		// candidate: phi >= entry value (counters that only grow)  /  phi <= entry value (only shrink)
		grow, shrink := true, true
		for i, e := range p.Edges {
			if !fr.back[[2]int{p.Block().Preds[i].Index, p.Block().Index}] {
				continue
			}
			g, s := stepDir(e, p, 0)
			grow = grow && g
			shrink = shrink && s
		}
		_ = w
		if grow && !shrink {
			li.auto = append(li.auto, &autoInv{phi: phi, desc: p.Comment + " >= entry value", mk: func(v Val) *Term {
				if sg {
					return f.SLe(ev, v[0])
				}
				return f.ULe(ev, v[0])
			}})
		}
		if shrink && !grow {
			li.auto = append(li.auto, &autoInv{phi: phi, desc: p.Comment + " <= entry value", mk: func(v Val) *Term {
				if sg {
					return f.SLe(v[0], ev)
				}
				return f.ULe(v[0], ev)
			}})
		}
	}
	// guard-derived upper bounds: header ends in `if phi < N` (or `if phi + c < N`) with N loop-invariant
	if len(li.header.Instrs) > 0 {
		if br, ok := li.header.Instrs[len(li.header.Instrs)-1].(*ssa.If); ok {
			if bo, ok := br.Cond.(*ssa.BinOp); ok && li.blocks[li.header.Succs[0]] && definedOutside(bo.Y, li) && (bo.Op == token.LSS || bo.Op == token.LEQ || bo.Op == token.NEQ) {
				var p *ssa.Phi
				strict := false
				if pp, ok := bo.X.(*ssa.Phi); ok && pp.Block() == li.header {
					p = pp
				} else if add, ok := bo.X.(*ssa.BinOp); ok && add.Op == token.ADD {
					if pp, ok := add.X.(*ssa.Phi); ok && pp.Block() == li.header {
						if c, ok := add.Y.(*ssa.Const); ok && c.Value != nil && c.Int64() > 0 && bo.Op == token.LSS {
							p = pp
							strict = true
						}
					}
				}
				if p != nil {
					if _, sg, ok := intLeaf(p.Type()); ok {
						N := tr.val(bo.Y)[0]
						ev := entryVals[p][0]
						desc := p.Comment + " <= loop bound (when entered below it)"
						if strict {
							desc = p.Comment + " < loop bound (when entered below it)"
						}
						li.auto = append(li.auto, &autoInv{phi: p, desc: desc, mk: func(v Val) *Term {
							cmp := func(a, b *Term) *Term {
								switch {
								case strict && sg:
									return f.SLt(a, b)
								case strict:
									return f.ULt(a, b)
								case sg:
									return f.SLe(a, b)
								}
								return f.ULe(a, b)
							}
							return f.Implies(cmp(ev, N), cmp(v[0], N))
						}})
					}
				}
			}
		}
	}
	kept := li.auto[:0]
	for _, a := range li.auto {
		if tr.disabledAuto["candidate counter invariant preserved: "+a.desc+" (no wrap-around)"] {
			continue
		}
		kept = append(kept, a)
	}
	li.auto = kept
	for _, a := range li.auto {
		a.ok = true
		// entry holds trivially for the first two kinds; the third is conditional on entry. assume inside the loop:
		tr.assume(f.Implies(reach, a.mk(li.phiVal[a.phi])), "candidate invariant (checked at every back edge): "+a.desc)
	}
}

// stepDir: does value e (a back-edge operand of phi p) only grow / only shrink relative to p?
func stepDir(e ssa.Value, p *ssa.Phi, depth int) (grow, shrink bool) {
	if e == ssa.Value(p) {
		return true, true
	}
	if depth > 4 {
		return false, false
	}
	switch x := e.(type) {
	case *ssa.BinOp:
		if c, ok := x.Y.(*ssa.Const); ok && c.Value != nil && (x.Op == token.ADD || x.Op == token.SUB) {
			g, s := stepDir(x.X, p, depth+1)
			pos := c.Int64() >= 0
			if x.Op == token.SUB {
				pos = !pos
			}
			if pos {
				return g, false
			}
			return false, s
		}
	case *ssa.Phi:
		g, s := true, true
		for _, ed := range x.Edges {
			if ed == ssa.Value(x) {
				continue
			}
			g2, s2 := stepDir(ed, p, depth+1)
			g, s = g && g2, s && s2
		}
		return g, s
	}
	return false, false
}

func (tr *Tr) autoInvariantsKeep(fr *Frame, li *loopInfo, back map[ssa.Value]Val, edge *Term, pos token.Pos) {
	for i, a := range li.auto {
		v, ok := back[a.phi]
		if !ok {
			continue
		}
		tr.obligeAt("inv-auto", fmt.Sprintf("L%d.%d", li.ord, i), pos, edge, a.mk(v), "candidate counter invariant preserved: "+a.desc+" (no wrap-around)")
	}
}

// constFieldPath: addr = &root.f1.f2... (FieldAddr / constant IndexAddr on arrays only): root pointer and constant slot offset.
func constFieldPath(addr ssa.Value) (ssa.Value, int, bool) {
	off := 0
	v := addr
	for {
		switch x := v.(type) {
		case *ssa.FieldAddr:
			st := x.X.Type().Underlying().(*types.Pointer).Elem().Underlying().(*types.Struct)
			off += fieldOffset(st, x.Field)
			v = x.X
		case *ssa.IndexAddr:
			pt, ok := x.X.Type().Underlying().(*types.Pointer)
			if !ok {
				return nil, 0, false
			}
			arr, ok := pt.Elem().Underlying().(*types.Array)
			if !ok {
				return nil, 0, false
			}
			c, ok := x.Index.(*ssa.Const)
			if !ok || c.Value == nil {
				return nil, 0, false
			}
			off += int(c.Int64()) * nleaves(arr.Elem())
			v = x.X
		default:
			if v == addr {
				return nil, 0, false // a bare pointer store: handled by the region rules
			}
			return v, off, true
		}
	}
}
