package main

// Quantifier handling before the solvers see a query:
//   1. skolemise existentials (a universally quantified goal under negation),
//   2. instantiate universally quantified hypotheses at the ground index terms of the query
//      (skolem constants, select/store indices, matched through `base + i` index patterns).
// Instantiation only weakens hypotheses, so `unsat` of the ground query is a proof; a `sat` of the ground query
// is only a candidate (the full quantified query is then also tried, and counterexamples are replayed).

import (
	"os"
	"fmt"
	"math/big"
	"strings"
)

func isBoundVar(t *Term) bool { return t.Op == "var" && strings.HasPrefix(t.Name, "?") }

func hasQuant(t *Term, memo map[*Term]bool) bool {
	if v, ok := memo[t]; ok {
		return v
	}
	r := t.Op == "forall" || t.Op == "exists"
	if !r {
		for _, a := range t.Args {
			if hasQuant(a, memo) {
				r = true
				break
			}
		}
	}
	memo[t] = r
	return r
}

// skolemize replaces existential quantifiers (by polarity) that are not under a universal binder.
func (f *TF) skolemize(t *Term, pos bool, qm map[*Term]bool, skolems *[]*Term) *Term {
	if !hasQuant(t, qm) {
		return t
	}
	switch t.Op {
	case "not":
		return f.Not(f.skolemize(t.Args[0], !pos, qm, skolems))
	case "and", "or":
		args := make([]*Term, len(t.Args))
		for i, a := range t.Args {
			args[i] = f.skolemize(a, pos, qm, skolems)
		}
		if t.Op == "and" {
			return f.And(args...)
		}
		return f.Or(args...)
	case "ite":
		if t.S == SBool && !hasQuant(t.Args[0], qm) {
			return f.Ite(t.Args[0], f.skolemize(t.Args[1], pos, qm, skolems), f.skolemize(t.Args[2], pos, qm, skolems))
		}
		return t
	case "forall", "exists":
		existential := (t.Op == "exists") == pos
		if !existential {
			return t // universal: handled by instantiation
		}
		m := map[*Term]*Term{}
		for _, b := range t.Bound {
			sk := f.Fresh("sk_"+strings.TrimLeft(b.Name, "?"), b.S)
			m[b] = sk
			*skolems = append(*skolems, sk)
		}
		body := f.Subst(t.Args[0], m)
		if t.Op == "forall" {
			// (forall x. B) at negative polarity == exists x. not B ; we return B[sk] and the enclosing `not` does the rest
			return f.skolemize(body, pos, qm, skolems)
		}
		return f.skolemize(body, pos, qm, skolems)
	}
	return t
}

type idxPattern struct {
	base *Term // nil: the bound variable itself is the index
	arr  *Sort // sort of the indexed array
	root []*Term
	mul  *Term // index is base + var*mul (mul a constant) when non-nil
	app  string // non-empty: the bound variable (plus base) is the last argument of this uninterpreted function
}

// arrayRoots: the base arrays below store chains / ite merges of an array term.
func arrayRoots(a *Term, out map[*Term]bool, depth int) {
	for a.Op == "store" {
		a = a.Args[0]
	}
	if a.Op == "ite" && depth < 6 {
		arrayRoots(a.Args[1], out, depth+1)
		arrayRoots(a.Args[2], out, depth+1)
		return
	}
	out[a] = true
}

func rootsOf(a *Term) []*Term {
	m := map[*Term]bool{}
	arrayRoots(a, m, 0)
	var out []*Term
	for r := range m {
		out = append(out, r)
	}
	return out
}

// collect index patterns of bound var b in body, and ground index terms.
func collectPatterns(body *Term, b *Term) []idxPattern {
	var out []idxPattern
	seen := map[*Term]bool{}
	var rec func(t *Term)
	rec = func(t *Term) {
		if seen[t] {
			return
		}
		seen[t] = true
		if (t.Op == "select" || t.Op == "store") && len(t.Args) >= 2 {
			ix := t.Args[1]
			as := t.Args[0].S
			if ix == b {
				out = append(out, idxPattern{arr: as, root: rootsOf(t.Args[0])})
			} else if ix.Op == "bvadd" && len(ix.Args) == 2 {
				if ix.Args[1] == b && !containsVar(ix.Args[0], b) {
					out = append(out, idxPattern{base: ix.Args[0], arr: as, root: rootsOf(t.Args[0])})
				} else if ix.Args[0] == b && !containsVar(ix.Args[1], b) {
					out = append(out, idxPattern{base: ix.Args[1], arr: as, root: rootsOf(t.Args[0])})
				} else if m := ix.Args[1]; m.Op == "bvmul" && len(m.Args) == 2 && m.Args[0] == b && m.Args[1].Op == "bv" && !containsVar(ix.Args[0], b) {
					// base + i*c
					out = append(out, idxPattern{base: ix.Args[0], arr: as, root: rootsOf(t.Args[0]), mul: m.Args[1]})
				} else if m := ix.Args[0]; m.Op == "bvmul" && len(m.Args) == 2 && m.Args[0] == b && m.Args[1].Op == "bv" && !containsVar(ix.Args[1], b) {
					out = append(out, idxPattern{base: ix.Args[1], arr: as, root: rootsOf(t.Args[0]), mul: m.Args[1]})
				}
			}
		}
		if t.Op == "app" && len(t.Args) >= 1 && appPatternName(t.Name) {
			last := t.Args[len(t.Args)-1]
			if last == b {
				out = append(out, idxPattern{app: t.Name})
			} else if last.Op == "bvadd" && len(last.Args) == 2 {
				if last.Args[1] == b && !containsVar(last.Args[0], b) {
					out = append(out, idxPattern{app: t.Name, base: last.Args[0]})
				} else if last.Args[0] == b && !containsVar(last.Args[1], b) {
					out = append(out, idxPattern{app: t.Name, base: last.Args[1]})
				}
			}
		}
		for _, a := range t.Args {
			rec(a)
		}
	}
	rec(body)
	return out
}

// appPatternName: uninterpreted functions whose last argument is a position (instantiation triggers).
func appPatternName(n string) bool { return n == "stream" }

func containsVar(t, v *Term) bool {
	seen := map[*Term]bool{}
	var rec func(t *Term) bool
	rec = func(t *Term) bool {
		if t == v {
			return true
		}
		if seen[t] {
			return false
		}
		seen[t] = true
		for _, a := range t.Args {
			if rec(a) {
				return true
			}
		}
		return false
	}
	return rec(t)
}

func containsBound(t *Term, memo map[*Term]bool) bool {
	if v, ok := memo[t]; ok {
		return v
	}
	r := isBoundVar(t)
	if !r {
		for _, a := range t.Args {
			if containsBound(a, memo) {
				r = true
				break
			}
		}
	}
	memo[t] = r
	return r
}

// groundIndexTerms: ground terms used as select/store indices, by the root of the indexed array and by its sort.
type groundIdx struct {
	byRoot map[*Term][]*Term
	bySort map[*Sort][]*Term
	byApp  map[string][]*Term // last arguments of ground applications of position-indexed uninterpreted functions
	byTag  map[string][]*Term // region terms c with a fact (= (rtype c) TAG) somewhere in the query, keyed by TAG
}

// rtypeFact: t is (= (rtype c) TAG) (either orientation): returns c and TAG.
func rtypeFact(t *Term) (*Term, *Term) {
	if t.Op != "=" || len(t.Args) != 2 {
		return nil, nil
	}
	a, b := t.Args[0], t.Args[1]
	if b.Op == "app" && b.Name == "rtype" {
		a, b = b, a
	}
	if a.Op == "app" && a.Name == "rtype" && len(a.Args) == 1 && b.Op == "bv" {
		return a.Args[0], b
	}
	return nil, nil
}

func groundIndexTerms(asserts []*Term) *groundIdx {
	out := &groundIdx{byRoot: map[*Term][]*Term{}, bySort: map[*Sort][]*Term{}, byTag: map[string][]*Term{}, byApp: map[string][]*Term{}}
	seen := map[*Term]bool{}
	haveT := map[string]bool{}
	haveA := map[string]bool{}
	type hk struct {
		t *Term
		s *Sort
	}
	type rk struct {
		t, r *Term
	}
	have := map[hk]bool{}
	haveR := map[rk]bool{}
	bm := map[*Term]bool{}
	var rec func(t *Term)
	rec = func(t *Term) {
		if seen[t] {
			return
		}
		seen[t] = true
		if c, tag := rtypeFact(t); c != nil && !containsBound(c, bm) {
			k := tag.Val.String()
			if !haveT[k+"|"+fmt.Sprint(c.id)] {
				haveT[k+"|"+fmt.Sprint(c.id)] = true
				out.byTag[k] = append(out.byTag[k], c)
			}
		}
		if t.Op == "app" && len(t.Args) >= 1 && appPatternName(t.Name) {
			last := t.Args[len(t.Args)-1]
			if !containsBound(last, bm) && !haveA[t.Name+"|"+fmt.Sprint(last.id)] {
				haveA[t.Name+"|"+fmt.Sprint(last.id)] = true
				out.byApp[t.Name] = append(out.byApp[t.Name], last)
			}
		}
		if (t.Op == "select" || t.Op == "store") && len(t.Args) >= 2 {
			ix := t.Args[1]
			if !containsBound(ix, bm) && !containsBound(t.Args[0], bm) {
				as := t.Args[0].S
				if !have[hk{ix, as}] {
					have[hk{ix, as}] = true
					out.bySort[as] = append(out.bySort[as], ix)
				}
				for _, r := range rootsOf(t.Args[0]) {
					if !haveR[rk{ix, r}] {
						haveR[rk{ix, r}] = true
						out.byRoot[r] = append(out.byRoot[r], ix)
					}
				}
			}
		}
		for _, a := range t.Args {
			rec(a)
		}
	}
	// the goal is the last assertion: its index terms come first (they survive the instance cap)
	for i := len(asserts) - 1; i >= 0; i-- {
		rec(asserts[i])
	}
	return out
}

const defaultMaxInst = 80

// instantiate replaces positive universals by finite conjunctions of instances.
func (f *TF) instantiate(t *Term, pos bool, qm map[*Term]bool, ground *groundIdx, skolems []*Term, left *bool) *Term {
	if !hasQuant(t, qm) {
		return t
	}
	switch t.Op {
	case "not":
		return f.Not(f.instantiate(t.Args[0], !pos, qm, ground, skolems, left))
	case "and", "or":
		args := make([]*Term, len(t.Args))
		for i, a := range t.Args {
			args[i] = f.instantiate(a, pos, qm, ground, skolems, left)
		}
		if t.Op == "and" {
			return f.And(args...)
		}
		return f.Or(args...)
	case "ite":
		if t.S == SBool && !hasQuant(t.Args[0], qm) {
			return f.Ite(t.Args[0], f.instantiate(t.Args[1], pos, qm, ground, skolems, left), f.instantiate(t.Args[2], pos, qm, ground, skolems, left))
		}
		*left = true
		return t
	case "forall", "exists":
		universal := (t.Op == "forall") == pos
		if !universal || len(t.Bound) != 1 {
			*left = true
			return t
		}
		b := t.Bound[0]
		body := t.Args[0]
		pats := collectPatterns(body, b)
		cands := map[*Term]bool{}
		var order []*Term
		add := func(c *Term) {
			if c.S == b.S && !cands[c] {
				cands[c] = true
				order = append(order, c)
			}
		}
		for _, sk := range skolems {
			add(sk)
		}
		// a frame guarded by the region's type: only regions known to have that type can use it
		if tag := guardTag(body, b); tag != nil {
			for _, c := range ground.byTag[tag.Val.String()] {
				add(c)
			}
			pats = nil
			*left = true // instances at regions whose type is not syntactically known are omitted: a model of the ground query proves nothing
		}
		// first pass: indices used on arrays with the same root as the pattern's array; second pass: same array sort
		for pass := 0; pass < 2; pass++ {
			for _, p := range pats {
				var gs []*Term
				if p.app != "" {
					if pass == 0 {
						gs = ground.byApp[p.app]
					}
				} else if pass == 0 {
					for _, r := range p.root {
						gs = append(gs, ground.byRoot[r]...)
					}
				} else if p.arr != nil {
					gs = ground.bySort[p.arr]
				}
				for _, g := range gs {
					if g.S != b.S {
						continue
					}
					if p.base == nil {
						add(g)
					} else if g.S.K == KBV && p.mul == nil {
						add(f.Sub(g, p.base))
					} else if g.S.K == KBV {
						d := f.Sub(g, p.base)
						if d.Op == "bvmul" && len(d.Args) == 2 && d.Args[1] == p.mul {
							add(d.Args[0])
						} else if d.Op == "bv" && p.mul.Val.Sign() > 0 {
							q, r := new(big.Int).QuoRem(d.Val, p.mul.Val, new(big.Int))
							if r.Sign() == 0 {
								add(f.BV(d.S.W, q))
							}
						} else if d.Op == "bvadd" && len(d.Args) == 2 && d.Args[0].Op == "bvmul" && d.Args[0].Args[1] == p.mul && d.Args[1].Op == "bv" {
							// x*c + k with k a multiple of c
							q, r := new(big.Int).QuoRem(d.Args[1].Val, p.mul.Val, new(big.Int))
							if r.Sign() == 0 {
								add(f.Add(d.Args[0].Args[0], f.BV(d.S.W, q)))
							}
						}
					}
				}
			}
			if len(order) >= f.maxInst {
				break
			}
		}
		if os.Getenv("VGO_DEBUG_INST") == "2" && len(order) == 0 {
			for _, p := range pats {
				n0, n1 := 0, 0
				for _, r := range p.root {
					n0 += len(ground.byRoot[r])
				}
				if p.arr != nil {
					n1 = len(ground.bySort[p.arr])
				}
				fmt.Fprintf(os.Stderr, "  PAT base=%v mul=%v roots=%d byRoot=%d bySort=%d arr=%v\n", p.base != nil, p.mul != nil, len(p.root), n0, n1, p.arr)
				if p.arr != nil {
					for i, g := range ground.bySort[p.arr] {
						if i < 4 {
							fmt.Fprintf(os.Stderr, "     g=%s  sub=%s\n", f.Show(g), f.Show(f.Sub(g, p.base)))
						}
					}
				}
			}
		}
		if os.Getenv("VGO_DEBUG_INST") != "" {
			fmt.Fprintf(os.Stderr, "INST bound=%s maxInst=%d cands=%d pats=%d skolems=%d\n", b.Name, f.maxInst, len(order), len(pats), len(skolems))
		}
		if len(order) > f.maxInst {
			order = order[:f.maxInst]
		}
		var insts []*Term
		for _, c := range order {
			inst := f.Subst(body, map[*Term]*Term{b: c})
			// nested quantifiers inside the instance
			inst = f.instantiate(inst, pos, map[*Term]bool{}, ground, skolems, left)
			insts = append(insts, inst)
		}
		if t.Op == "forall" {
			return f.And(insts...)
		}
		// exists at negative polarity: not(exists x.B) == forall x. not B ; instances: or of B[c] under the enclosing not
		return f.Or(insts...)
	}
	*left = true
	return t
}

func termSize(t *Term, depth int) int {
	if depth == 0 || len(t.Args) == 0 {
		return 1
	}
	n := 1
	for _, a := range t.Args {
		n += termSize(a, depth-1)
	}
	return n
}

// groundQuery turns the assertion list into a quantifier-free one (when possible). Returns the new list,
// whether anything was instantiated (=> sat is only a candidate) and whether quantifiers remain.
func (f *TF) groundQuery(asserts []*Term) (out []*Term, instantiated bool, remaining bool) {
	qm := map[*Term]bool{}
	any := false
	for _, a := range asserts {
		if hasQuant(a, qm) {
			any = true
		}
	}
	if !any {
		return asserts, false, false
	}
	// instance budget: many quantified hypotheses share a smaller per-quantifier cap
	nq := 0
	var cnt func(t *Term, seen map[*Term]bool)
	cnt = func(t *Term, seen map[*Term]bool) {
		if seen[t] {
			return
		}
		seen[t] = true
		if t.Op == "forall" || t.Op == "exists" {
			// frames guarded by a region type are instantiated at the few regions of that type only: they do not share the budget
			if !(len(t.Bound) == 1 && guardTag(t.Args[0], t.Bound[0]) != nil) {
				nq++
			}
		}
		for _, a := range t.Args {
			cnt(a, seen)
		}
	}
	seenQ := map[*Term]bool{}
	for _, a := range asserts {
		cnt(a, seenQ)
	}
	f.maxInst = defaultMaxInst
	if nq > 12 {
		f.maxInst = 960 / nq
		if f.maxInst < 12 {
			f.maxInst = 12
		}
	}
	var skolems []*Term
	sk := make([]*Term, len(asserts))
	for i, a := range asserts {
		sk[i] = f.skolemize(a, true, qm, &skolems)
	}
	cur := sk
	for round := 0; round < 3; round++ {
		ground := groundIndexTerms(cur)
		next := make([]*Term, len(sk))
		left := false
		for i, a := range sk {
			next[i] = f.instantiate(a, true, map[*Term]bool{}, ground, skolems, &left)
		}
		cur = next
		remaining = left
	}
	return cur, true, remaining
}

// splitConj returns terms whose conjunction is equivalent to t (used to localise a failing clause).
func (f *TF) splitConj(t *Term) []*Term {
	switch t.Op {
	case "and":
		var out []*Term
		for _, a := range t.Args {
			out = append(out, f.splitConj(a)...)
		}
		return out
	case "or":
		// distribute over one conjunctive disjunct
		for i, a := range t.Args {
			parts := f.splitConj(a)
			if len(parts) > 1 {
				var rest []*Term
				rest = append(rest, t.Args[:i]...)
				rest = append(rest, t.Args[i+1:]...)
				var out []*Term
				for _, p := range parts {
					out = append(out, f.splitConj(f.Or(append(append([]*Term{}, rest...), p)...))...)
				}
				return out
			}
		}
	case "forall":
		parts := f.splitConj(t.Args[0])
		if len(parts) > 1 {
			var out []*Term
			for _, p := range parts {
				out = append(out, f.Forall(t.Bound, p))
			}
			return out
		}
	}
	return []*Term{t}
}

// freeBoundVars: does t mention a quantifier-bound variable that is not bound inside t?
func freeBoundVars(t *Term) bool {
	var rec func(t *Term, bound map[*Term]bool) bool
	rec = func(t *Term, bound map[*Term]bool) bool {
		if isBoundVar(t) {
			return !bound[t]
		}
		if t.Op == "forall" || t.Op == "exists" {
			nb := map[*Term]bool{}
			for k := range bound {
				nb[k] = true
			}
			for _, b := range t.Bound {
				nb[b] = true
			}
			bound = nb
		}
		for _, a := range t.Args {
			if rec(a, bound) {
				return true
			}
		}
		return false
	}
	return rec(t, map[*Term]bool{})
}

// guardTag: body is (or (not (and ... (= (rtype b) TAG) ...)) ...): the TAG, else nil.
func guardTag(body, b *Term) *Term {
	if body.Op != "or" {
		return nil
	}
	for _, a := range body.Args {
		if a.Op != "not" {
			continue
		}
		g := a.Args[0]
		cs := []*Term{g}
		if g.Op == "and" {
			cs = g.Args
		}
		for _, c := range cs {
			if x, tag := rtypeFact(c); x == b {
				return tag
			}
		}
	}
	return nil
}
