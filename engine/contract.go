package main

// Contract files: /repo/<pkg>/zz_verif_contracts.go, `//go:build verif`, `//@` comment lines.

import (
	"bufio"
	"fmt"
	"go/ast"
	"go/parser"
	"go/scanner"
	"go/token"
	"os"
	"path/filepath"
	"strconv"
	"strings"
)

type Clause struct {
	Label string
	Expr  ast.Expr
	Src   string
	Where string // file:line
}

type LoopSpec struct {
	Exits      []Clause // assertions that must hold on every edge leaving the loop (entry(e) refers to the loop entry)
	Invariants []Clause
	Decreases  *Clause
	Unroll     int
}

type AtCall struct {
	Callee  string
	Ordinal int
	Asserts []Clause
}

type Contract struct {
	PkgPath  string
	FnName   string // as written: "f", "(*T).m", "T.m", "(*T).m$1"
	Requires []Clause
	Ensures  []Clause
	Modifies []Clause
	ModSet   bool // a modifies clause is present (otherwise: frame not claimed)
	Lets     []Clause
	Loops    map[int]*LoopSpec
	AtCalls  []*AtCall
	Trusted  bool
	Inline   bool
	Pure     bool
	NoSafety bool // no implicit safety obligations at all (partial correctness modulo run-time panics)
	NoNil    bool // do not generate nil-dereference obligations (sweep mode)
	Props    []string
	Alloc    *Clause
	EffectWhen map[string]*Clause // effects none(x) when <cond>: forbidden only in executions whose entry state satisfies cond
	Boundary map[string]bool // effects boundary(x): this function is the declared gate to the source of effect x
	Effects  []string // forbidden effects: "clock", "random", "maporder", "devwrite"
	Iface    bool   // contract of an interface method (FnName = "Type.Method")
	Where    string
	Locks    []Clause // lock discipline: requires held(...) etc are ordinary clauses; this holds guarded_by decls
	Fresh    []string
	Terminates bool
	lockMode bool
	Splits   []SplitSpec
	AtReturn []Clause // assertions checked at every return site (locals in scope; unassigned locals read as zero)
}

type SplitSpec struct {
	Expr   Clause
	Values []Clause
	Else   bool // an extra residual case: none of the listed values
}

type Pred struct {
	PkgPath string
	Name    string
	Params  []string
	Body    ast.Expr
	Src     string
}

type GlobalInv struct {
	PkgPath string
	Name    string
	Clauses []Clause
}

type ContractFile struct {
	PkgPath   string
	Contracts []*Contract
	Preds     []*Pred
	Globals   []*GlobalInv
	Guarded   map[string]string // "Type.field" -> "lockexpr" (C17)
}

var clauseKeywords = map[string]bool{
	"func": true, "requires": true, "ensures": true, "modifies": true, "let": true, "loop": true, "invariant": true,
	"decreases": true, "unroll": true, "pred": true, "trusted": true, "inline": true, "pure": true, "props": true,
	"iface": true, "global": true, "allocates": true, "effects": true, "at": true, "assert": true, "nonil": true, "nosafety": true,
	"guarded_by": true, "fresh": true, "terminates": true, "split": true, "exit": true,
}

func parseContractFile(path, pkgPath string) (*ContractFile, error) {
	fh, err := os.Open(path)
	if err != nil {
		return nil, err
	}
	defer fh.Close()
	cf := &ContractFile{PkgPath: pkgPath, Guarded: map[string]string{}}
	type rawLine struct {
		kw, rest string
		line     int
	}
	var lines []rawLine
	sc := bufio.NewScanner(fh)
	sc.Buffer(make([]byte, 1<<20), 1<<20)
	ln := 0
	for sc.Scan() {
		ln++
		t := strings.TrimSpace(sc.Text())
		if !strings.HasPrefix(t, "//@") {
			continue
		}
		t = strings.TrimSpace(strings.TrimPrefix(t, "//@"))
		if t == "" {
			continue
		}
		// strip trailing comments  " // ..."
		if i := strings.Index(t, " // "); i >= 0 {
			t = strings.TrimSpace(t[:i])
		}
		if strings.HasPrefix(t, "// ") || t == "//" {
			continue
		}
		kw := t
		rest := ""
		if i := strings.IndexAny(t, " \t"); i >= 0 {
			kw, rest = t[:i], strings.TrimSpace(t[i+1:])
		}
		if !clauseKeywords[kw] {
			if len(lines) == 0 {
				return nil, fmt.Errorf("%s:%d: continuation without clause", path, ln)
			}
			lines[len(lines)-1].rest += " " + t
			continue
		}
		lines = append(lines, rawLine{kw, rest, ln})
	}
	var cur *Contract
	var curLoop *LoopSpec
	var curAt *AtCall
	var retAt *AtCall
	var curGlobal *GlobalInv
	mk := func(l rawLine, allowLabel bool) (Clause, error) {
		src := l.rest
		label := ""
		if allowLabel && strings.HasPrefix(src, "#") {
			if i := strings.Index(src, ":"); i > 0 {
				label = strings.TrimSpace(src[1:i])
				src = strings.TrimSpace(src[i+1:])
			}
		}
		e, err := parseSpecExpr(src)
		if err != nil {
			return Clause{}, fmt.Errorf("%s:%d: %v in %q", path, l.line, err, src)
		}
		return Clause{Label: label, Expr: e, Src: src, Where: fmt.Sprintf("%s:%d", filepath.Base(filepath.Dir(path))+"/"+filepath.Base(path), l.line)}, nil
	}
	for _, l := range lines {
		where := fmt.Sprintf("%s:%d", path, l.line)
		switch l.kw {
		case "func", "iface":
			cur = &Contract{PkgPath: pkgPath, FnName: l.rest, Loops: map[int]*LoopSpec{}, Where: where, Iface: l.kw == "iface"}
			cf.Contracts = append(cf.Contracts, cur)
			curLoop, curAt, curGlobal, retAt = nil, nil, nil, nil
		case "pred":
			// pred name(a, b) = expr
			i := strings.Index(l.rest, "=")
			if i < 0 {
				return nil, fmt.Errorf("%s: pred without =", where)
			}
			head, body := strings.TrimSpace(l.rest[:i]), strings.TrimSpace(l.rest[i+1:])
			// careful: '=' may be part of '==' in head? head has no operators
			p := &Pred{PkgPath: pkgPath, Src: body}
			if j := strings.Index(head, "("); j >= 0 {
				p.Name = strings.TrimSpace(head[:j])
				ps := strings.TrimSuffix(strings.TrimSpace(head[j+1:]), ")")
				for _, a := range strings.Split(ps, ",") {
					a = strings.TrimSpace(a)
					if a == "" {
						continue
					}
					// allow "name type" -- keep only the name
					a = strings.Fields(a)[0]
					p.Params = append(p.Params, a)
				}
			} else {
				p.Name = head
			}
			e, err := parseSpecExpr(body)
			if err != nil {
				return nil, fmt.Errorf("%s: %v", where, err)
			}
			p.Body = e
			cf.Preds = append(cf.Preds, p)
			cur = nil
		case "global":
			// global name: expr
			i := strings.Index(l.rest, ":")
			if i < 0 {
				return nil, fmt.Errorf("%s: global without ':'", where)
			}
			curGlobal = &GlobalInv{PkgPath: pkgPath, Name: strings.TrimSpace(l.rest[:i])}
			l2 := l
			l2.rest = strings.TrimSpace(l.rest[i+1:])
			c, err := mk(l2, false)
			if err != nil {
				return nil, err
			}
			curGlobal.Clauses = append(curGlobal.Clauses, c)
			cf.Globals = append(cf.Globals, curGlobal)
			cur = nil
		case "guarded_by":
			// guarded_by T.mu: T.f1 T.f2 ...
			i := strings.Index(l.rest, ":")
			if i < 0 {
				return nil, fmt.Errorf("%s: guarded_by without ':'", where)
			}
			lock := strings.TrimSpace(l.rest[:i])
			for _, fld := range strings.Fields(l.rest[i+1:]) {
				cf.Guarded[fld] = lock
			}
		default:
			if cur == nil {
				return nil, fmt.Errorf("%s: clause %q outside a func block", where, l.kw)
			}
			switch l.kw {
			case "requires":
				c, err := mk(l, true)
				if err != nil {
					return nil, err
				}
				cur.Requires = append(cur.Requires, c)
			case "ensures":
				c, err := mk(l, true)
				if err != nil {
					return nil, err
				}
				cur.Ensures = append(cur.Ensures, c)
			case "modifies":
				cur.ModSet = true
				if l.rest == "nothing" {
					break
				}
				for _, item := range splitTop(l.rest, ',') {
					l2 := l
					l2.rest = strings.TrimSpace(item)
					c, err := mk(l2, false)
					if err != nil {
						return nil, err
					}
					cur.Modifies = append(cur.Modifies, c)
				}
			case "let":
				i := strings.Index(l.rest, "=")
				if i < 0 {
					return nil, fmt.Errorf("%s: let without =", where)
				}
				l2 := l
				l2.rest = strings.TrimSpace(l.rest[i+1:])
				c, err := mk(l2, false)
				if err != nil {
					return nil, err
				}
				c.Label = strings.TrimSpace(l.rest[:i])
				cur.Lets = append(cur.Lets, c)
			case "loop":
				n, err := strconv.Atoi(strings.TrimSpace(l.rest))
				if err != nil {
					return nil, fmt.Errorf("%s: loop ordinal: %v", where, err)
				}
				curLoop = &LoopSpec{}
				cur.Loops[n] = curLoop
				curAt = nil
			case "invariant":
				if curLoop == nil {
					return nil, fmt.Errorf("%s: invariant outside loop", where)
				}
				c, err := mk(l, true)
				if err != nil {
					return nil, err
				}
				curLoop.Invariants = append(curLoop.Invariants, c)
			case "exit":
				if curLoop == nil {
					return nil, fmt.Errorf("%s: exit outside loop", where)
				}
				c, err := mk(l, true)
				if err != nil {
					return nil, err
				}
				curLoop.Exits = append(curLoop.Exits, c)
			case "decreases":
				if curLoop == nil {
					return nil, fmt.Errorf("%s: decreases outside loop", where)
				}
				c, err := mk(l, false)
				if err != nil {
					return nil, err
				}
				curLoop.Decreases = &c
			case "unroll":
				if curLoop == nil {
					return nil, fmt.Errorf("%s: unroll outside loop", where)
				}
				n, err := strconv.Atoi(strings.TrimSpace(l.rest))
				if err != nil {
					return nil, err
				}
				curLoop.Unroll = n
			case "at":
				if strings.HasPrefix(strings.TrimSpace(l.rest), "return") {
					curAt = &AtCall{Callee: "\x00return"}
					curLoop = nil
					retAt = curAt
					break
				}
				// at call <callee>#n
				r := strings.TrimSpace(strings.TrimPrefix(l.rest, "call"))
				ord := 0
				if i := strings.LastIndex(r, "#"); i >= 0 {
					ord, _ = strconv.Atoi(strings.TrimSuffix(strings.TrimSpace(r[i+1:]), ":"))
					r = strings.TrimSpace(r[:i])
				}
				curAt = &AtCall{Callee: strings.TrimSuffix(r, ":"), Ordinal: ord}
				cur.AtCalls = append(cur.AtCalls, curAt)
				curLoop = nil
			case "assert":
				if curAt == nil {
					return nil, fmt.Errorf("%s: assert outside 'at call'", where)
				}
				c, err := mk(l, true)
				if err != nil {
					return nil, err
				}
				if curAt == retAt && retAt != nil {
					cur.AtReturn = append(cur.AtReturn, c)
				} else {
					curAt.Asserts = append(curAt.Asserts, c)
				}
			case "trusted":
				cur.Trusted = true
			case "inline":
				cur.Inline = true
			case "pure":
				cur.Pure = true
			case "nonil":
				cur.NoNil = true
			case "nosafety":
				// implicit run-time-panic obligations (nil, bounds, division, allocation size, shift, type assertion) are not
				// generated for this function: its contract speaks about executions that do not panic (panics belong to C18)
				cur.NoNil = true
				cur.NoSafety = true
			case "terminates":
				cur.Terminates = true
			case "props":
				cur.Props = append(cur.Props, strings.Fields(l.rest)...)
			case "allocates":
				l2 := l
				l2.rest = strings.TrimSpace(strings.TrimPrefix(strings.TrimSpace(l.rest), "<="))
				c, err := mk(l2, false)
				if err != nil {
					return nil, err
				}
				cur.Alloc = &c
			case "effects":
				// effects none(clock, random)
				r := strings.TrimSpace(l.rest)
				if strings.HasPrefix(r, "boundary(") {
					r = strings.TrimSuffix(strings.TrimPrefix(r, "boundary("), ")")
					if cur.Boundary == nil {
						cur.Boundary = map[string]bool{}
					}
					for _, e := range strings.Split(r, ",") {
						if e = strings.TrimSpace(e); e != "" {
							cur.Boundary[e] = true
						}
					}
					break
				}
				var when *Clause
				if i := strings.Index(r, ") when "); i >= 0 {
					l2 := l
					l2.rest = strings.TrimSpace(r[i+len(") when "):])
					c, err := mk(l2, false)
					if err != nil {
						return nil, err
					}
					when = &c
					r = r[:i+1]
				}
				r = strings.TrimSuffix(strings.TrimPrefix(r, "none("), ")")
				for _, e := range strings.Split(r, ",") {
					if e = strings.TrimSpace(e); e != "" {
						cur.Effects = append(cur.Effects, e)
						if when != nil {
							if cur.EffectWhen == nil {
								cur.EffectWhen = map[string]*Clause{}
							}
							cur.EffectWhen[e] = when
						}
					}
				}
			case "fresh":
				cur.Fresh = append(cur.Fresh, strings.Fields(l.rest)...)
			case "split":
				// split <expr> in v1, v2, ...
				i := strings.LastIndex(l.rest, " in ")
				if i < 0 {
					return nil, fmt.Errorf("%s: split without 'in'", where)
				}
				l2 := l
				l2.rest = strings.TrimSpace(l.rest[:i])
				ec, err := mk(l2, false)
				if err != nil {
					return nil, err
				}
				sp := SplitSpec{Expr: ec}
				for _, v := range splitTop(l.rest[i+4:], ',') {
					l3 := l
					l3.rest = strings.TrimSpace(v)
					if l3.rest == "else" {
						sp.Else = true
						continue
					}
					vc, err := mk(l3, false)
					if err != nil {
						return nil, err
					}
					sp.Values = append(sp.Values, vc)
				}
				cur.Splits = append(cur.Splits, sp)
			}
		}
	}
	return cf, nil
}

func splitTop(s string, sep byte) []string {
	var out []string
	depth := 0
	last := 0
	for i := 0; i < len(s); i++ {
		switch s[i] {
		case '(', '[', '{':
			depth++
		case ')', ']', '}':
			depth--
		default:
			if s[i] == sep && depth == 0 {
				out = append(out, s[last:i])
				last = i + 1
			}
		}
	}
	return append(out, s[last:])
}

// parseSpecExpr: Go expression syntax plus `a ==> b` (right associative, lowest precedence, may appear inside parentheses / call arguments).
func parseSpecExpr(src string) (ast.Expr, error) {
	rew, err := rewriteImplies(src)
	if err != nil {
		return nil, err
	}
	return parser.ParseExpr(rew)
}

type tok struct {
	pos int
	t   token.Token
	lit string
}

func rewriteImplies(src string) (string, error) {
	if !strings.Contains(src, "==>") {
		return src, nil
	}
	// tokenise
	fset := token.NewFileSet()
	file := fset.AddFile("", fset.Base(), len(src))
	var s scanner.Scanner
	var errs []string
	s.Init(file, []byte(src), func(pos token.Position, msg string) { errs = append(errs, msg) }, 0)
	var toks []tok
	for {
		p, t, lit := s.Scan()
		if t == token.EOF {
			break
		}
		if t == token.SEMICOLON && lit == "\n" {
			continue
		}
		toks = append(toks, tok{file.Offset(p), t, lit})
	}
	if len(errs) > 0 {
		return "", fmt.Errorf("scan: %s", strings.Join(errs, "; "))
	}
	// group recursively
	var rec func(lo, hi int) string // tokens [lo,hi) form a balanced sequence
	text := func(i int) string {
		t := toks[i]
		if t.lit != "" {
			return t.lit
		}
		return t.t.String()
	}
	rec = func(lo, hi int) string {
		// split at top-level commas
		depth := 0
		var parts [][2]int
		start := lo
		for i := lo; i < hi; i++ {
			switch toks[i].t {
			case token.LPAREN, token.LBRACK, token.LBRACE:
				depth++
			case token.RPAREN, token.RBRACK, token.RBRACE:
				depth--
			case token.COMMA:
				if depth == 0 {
					parts = append(parts, [2]int{start, i})
					start = i + 1
				}
			}
		}
		parts = append(parts, [2]int{start, hi})
		var outs []string
		for _, p := range parts {
			outs = append(outs, recImp(toks, p[0], p[1], rec, text))
		}
		return strings.Join(outs, ", ")
	}
	return rec(0, len(toks)), nil
}

// recImp handles one comma-free segment: splits at top-level ==> (tokens EQL GTR adjacent).
func recImp(toks []tok, lo, hi int, rec func(lo, hi int) string, text func(i int) string) string {
	depth := 0
	for i := lo; i < hi-1; i++ {
		switch toks[i].t {
		case token.LPAREN, token.LBRACK, token.LBRACE:
			depth++
		case token.RPAREN, token.RBRACK, token.RBRACE:
			depth--
		}
		if depth == 0 && toks[i].t == token.EQL && toks[i+1].t == token.GTR && toks[i+1].pos == toks[i].pos+2 {
			lhs := recImp(toks, lo, i, rec, text)
			rhs := recImp(toks, i+2, hi, rec, text)
			return "implies(" + lhs + ", " + rhs + ")"
		}
	}
	// no top-level implication: emit tokens, recursing into bracketed groups
	var sb strings.Builder
	for i := lo; i < hi; i++ {
		switch toks[i].t {
		case token.LPAREN, token.LBRACK, token.LBRACE:
			// find matching close
			d := 0
			j := i
			for ; j < hi; j++ {
				switch toks[j].t {
				case token.LPAREN, token.LBRACK, token.LBRACE:
					d++
				case token.RPAREN, token.RBRACK, token.RBRACE:
					d--
				}
				if d == 0 {
					break
				}
			}
			sb.WriteString(text(i))
			if toks[i].t == token.LBRACK {
				// index / slice expression: colons inside; handle by splitting at top-level colons
				sb.WriteString(recColon(toks, i+1, j, rec, text))
			} else {
				sb.WriteString(rec(i+1, j))
			}
			if j < hi {
				sb.WriteString(text(j))
			}
			i = j
		default:
			sb.WriteString(text(i))
			sb.WriteByte(' ')
		}
	}
	return sb.String()
}

func recColon(toks []tok, lo, hi int, rec func(lo, hi int) string, text func(i int) string) string {
	depth := 0
	start := lo
	var outs []string
	for i := lo; i < hi; i++ {
		switch toks[i].t {
		case token.LPAREN, token.LBRACK, token.LBRACE:
			depth++
		case token.RPAREN, token.RBRACK, token.RBRACE:
			depth--
		case token.COLON:
			if depth == 0 {
				outs = append(outs, rec(start, i))
				start = i + 1
			}
		}
	}
	outs = append(outs, rec(start, hi))
	return strings.Join(outs, ":")
}
