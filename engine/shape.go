package main

import (
	"go/types"
	"sync"
)

// A Go value is flattened into leaves; an object in memory occupies consecutive slots, one leaf each.
type leaf struct {
	S      *Sort
	signed bool
	kind   string // int bool ptr.reg ptr.off sl.reg sl.off sl.len sl.cap str.id str.len if.t if.reg if.off id opaque
}

var shapeCache sync.Map

func widthOf(b *types.Basic) (int, bool) {
	switch b.Kind() {
	case types.Int8:
		return 8, true
	case types.Uint8:
		return 8, false
	case types.Int16:
		return 16, true
	case types.Uint16:
		return 16, false
	case types.Int32, types.UntypedRune:
		return 32, true
	case types.Uint32:
		return 32, false
	case types.Int64, types.Int, types.UntypedInt:
		return 64, true
	case types.Uint64, types.Uint, types.Uintptr:
		return 64, false
	}
	return 0, false
}

func shape(t types.Type) []leaf {
	if s, ok := shapeCache.Load(t); ok {
		return s.([]leaf)
	}
	var out []leaf
	switch u := t.Underlying().(type) {
	case *types.Basic:
		if w, sg := widthOf(u); w > 0 {
			out = []leaf{{BVS(w), sg, "int"}}
		} else if u.Info()&types.IsBoolean != 0 {
			out = []leaf{{SBool, false, "bool"}}
		} else if u.Info()&types.IsString != 0 {
			out = []leaf{{S64, false, "str.id"}, {S64, true, "str.len"}}
		} else if u.Kind() == types.UnsafePointer || u.Kind() == types.UntypedNil {
			out = []leaf{{S64, false, "ptr.reg"}, {S64, false, "ptr.off"}}
		} else {
			out = []leaf{{S64, false, "opaque"}} // floats, complex
		}
	case *types.Pointer:
		out = []leaf{{S64, false, "ptr.reg"}, {S64, false, "ptr.off"}}
	case *types.Slice:
		out = []leaf{{S64, false, "sl.reg"}, {S64, false, "sl.off"}, {S64, true, "sl.len"}, {S64, true, "sl.cap"}}
	case *types.Struct:
		for i := 0; i < u.NumFields(); i++ {
			out = append(out, shape(u.Field(i).Type())...)
		}
		if out == nil {
			out = []leaf{}
		}
	case *types.Array:
		el := shape(u.Elem())
		if u.Len()*int64(len(el)) <= 8192 {
			for i := int64(0); i < u.Len(); i++ {
				out = append(out, el...)
			}
			if out == nil {
				out = []leaf{}
			}
		} else {
			out = []leaf{{S64, false, "opaque"}}
		}
	case *types.Interface:
		out = []leaf{{S64, false, "if.t"}, {S64, false, "if.reg"}, {S64, false, "if.off"}}
	case *types.Map, *types.Chan, *types.Signature:
		out = []leaf{{S64, false, "id"}}
	case *types.Tuple:
		for i := 0; i < u.Len(); i++ {
			out = append(out, shape(u.At(i).Type())...)
		}
		if out == nil {
			out = []leaf{}
		}
	default:
		out = []leaf{{S64, false, "opaque"}}
	}
	shapeCache.Store(t, out)
	return out
}

func nleaves(t types.Type) int { return len(shape(t)) }

func fieldOffset(st *types.Struct, idx int) int {
	off := 0
	for i := 0; i < idx; i++ {
		off += len(shape(st.Field(i).Type()))
	}
	return off
}

func intLeaf(ty types.Type) (int, bool, bool) {
	ls := shape(ty)
	if len(ls) == 1 && ls[0].kind == "int" {
		return ls[0].S.W, ls[0].signed, true
	}
	return 0, false, false
}

func isString(t types.Type) bool {
	b, ok := t.Underlying().(*types.Basic)
	return ok && b.Info()&types.IsString != 0
}
func isBool(t types.Type) bool {
	b, ok := t.Underlying().(*types.Basic)
	return ok && b.Info()&types.IsBoolean != 0
}
func isIface(t types.Type) bool  { _, ok := t.Underlying().(*types.Interface); return ok }
func isPtr(t types.Type) bool    { _, ok := t.Underlying().(*types.Pointer); return ok }
func isSlice(t types.Type) bool  { _, ok := t.Underlying().(*types.Slice); return ok }
func isMap(t types.Type) bool    { _, ok := t.Underlying().(*types.Map); return ok }
func isStruct(t types.Type) bool { _, ok := t.Underlying().(*types.Struct); return ok }

func elemType(t types.Type) types.Type {
	switch u := t.Underlying().(type) {
	case *types.Slice:
		return u.Elem()
	case *types.Array:
		return u.Elem()
	case *types.Pointer:
		if a, ok := u.Elem().Underlying().(*types.Array); ok {
			return a.Elem()
		}
		return u.Elem()
	case *types.Map:
		return u.Elem()
	}
	return nil
}

// heap key for a leaf sort
func heapKey(s *Sort) string {
	switch s {
	case SBool:
		return "b"
	case S8:
		return "8"
	case S16:
		return "16"
	case S32:
		return "32"
	}
	return "64"
}

var heapKeys = []string{"b", "8", "16", "32", "64"}

func heapElemSort(k string) *Sort {
	switch k {
	case "b":
		return SBool
	case "8":
		return S8
	case "16":
		return S16
	case "32":
		return S32
	}
	return S64
}
