package main

// Evaluation of contract expressions (Go expression syntax + spec functions) to terms.

import (
	"fmt"
	"go/ast"
	"go/constant"
	"go/token"
	"go/types"
	"math/big"
	"strconv"
	"strings"

	"golang.org/x/tools/go/ssa"
)

type EVal struct {
	V     Val
	T     types.Type     // Go type; nil for ghost values
	C     constant.Value // untyped constant
	Ghost string         // "int" (mathematical Int), "log", "event", "nil"
	Ev    *Term          // event index for Ghost=="event"
	Arr   *Term          // for a []byte view of a ghost byte array (event buffer): the array itself; V is a slice header with region 0
}

type Env struct {
	tr     *Tr
	pkg    *types.Package
	vars   map[string]EVal
	macros map[string]ast.Expr
	st     *State
	old    *State
	fr     *Frame
	li     *loopInfo
	inOld  bool
	errs   []string
	allocAtEntry *Term
	zeroLocals bool // locals not yet assigned at this program point read as their zero value (return-site assertions)
	pending *[]*Term // facts about loaded values that mention quantifier-bound variables (closed off by the binder)
}

type evalErr struct{ msg string }

func (env *Env) fail(format string, a ...any) {
	panic(evalErr{fmt.Sprintf(format, a...)})
}

func (env *Env) child() *Env {
	n := *env
	n.vars = map[string]EVal{}
	for k, v := range env.vars {
		n.vars[k] = v
	}
	return &n
}

// EvalBool evaluates a clause to a Bool term; errors are returned.
func (env *Env) EvalBool(e ast.Expr) (t *Term, err error) {
	defer func() {
		if r := recover(); r != nil {
			if ee, ok := r.(evalErr); ok {
				err = fmt.Errorf("%s", ee.msg)
				return
			}
			panic(r)
		}
	}()
	v := env.eval(e)
	if len(v.V) != 1 || v.V[0].S != SBool {
		return nil, fmt.Errorf("clause is not boolean")
	}
	return v.V[0], nil
}

func (env *Env) Eval(e ast.Expr) (v EVal, err error) {
	defer func() {
		if r := recover(); r != nil {
			if ee, ok := r.(evalErr); ok {
				err = fmt.Errorf("%s", ee.msg)
				return
			}
			panic(r)
		}
	}()
	return env.eval(e), nil
}

var tInt = types.Typ[types.Int]

func (env *Env) f() *TF { return env.tr.f }

func (env *Env) boolVal(t *Term) EVal { return EVal{V: Val{t}, T: types.Typ[types.Bool]} }

func (env *Env) constInt(c constant.Value) EVal {
	return EVal{C: c, T: types.Typ[types.UntypedInt]}
}

// materialise an untyped constant at a given type / ghost int
func (env *Env) asType(v EVal, t types.Type) EVal {
	if v.C == nil {
		return v
	}
	f := env.f()
	if t == nil { // ghost int
		bi, _ := new(big.Int).SetString(v.C.ExactString(), 10)
		if bi == nil {
			env.fail("constant %s is not an integer", v.C)
		}
		return EVal{V: Val{f.IntBig(bi)}, Ghost: "int"}
	}
	if w, _, ok := intLeaf(t); ok {
		c := constant.ToInt(v.C)
		bi, _ := new(big.Int).SetString(c.ExactString(), 10)
		if bi == nil {
			env.fail("constant %s is not an integer", v.C)
		}
		return EVal{V: Val{f.BV(w, bi)}, T: t}
	}
	if isString(t) && v.C.Kind() == constant.String {
		return EVal{V: env.tr.strConst(constant.StringVal(v.C)), T: t}
	}
	if isBool(t) && v.C.Kind() == constant.Bool {
		return EVal{V: Val{f.Bool(constant.BoolVal(v.C))}, T: t}
	}
	env.fail("cannot use constant %s as %s", v.C, t)
	return v
}

func (env *Env) defaultType(v EVal) EVal {
	if v.C == nil {
		return v
	}
	switch v.C.Kind() {
	case constant.String:
		return env.asType(v, types.Typ[types.String])
	case constant.Bool:
		return env.asType(v, types.Typ[types.Bool])
	}
	return env.asType(v, tInt)
}

func (env *Env) lookupIdent(name string) (EVal, bool) {
	if v, ok := env.vars[name]; ok {
		return v, true
	}
	if m, ok := env.macros[name]; ok {
		return env.eval(m), true
	}
	switch name {
	case "true":
		return env.boolVal(env.f().True()), true
	case "false":
		return env.boolVal(env.f().False()), true
	case "nil":
		return EVal{Ghost: "nil"}, true
	case "W":
		return EVal{Ghost: "log"}, true
	case "WRITE":
		return EVal{V: Val{env.f().BVi(64, evWrite)}, T: types.Typ[types.Uint64]}, true
	case "SYNC":
		return EVal{V: Val{env.f().BVi(64, evSync)}, T: types.Typ[types.Uint64]}, true
	case "READ":
		return EVal{V: Val{env.f().BVi(64, evRead)}, T: types.Typ[types.Uint64]}, true
	case "OUT":
		return EVal{V: Val{env.f().BVi(64, evOut)}, T: types.Typ[types.Uint64]}, true
	case "IN":
		return EVal{V: Val{env.f().BVi(64, evIn)}, T: types.Typ[types.Uint64]}, true
	}
	// SSA locals (loop invariants, call-site assertions)
	if env.fr != nil {
		if v, ok := env.tr.lookupLocal(env, name); ok {
			return v, true
		}
	}
	// package scope
	if obj := env.pkg.Scope().Lookup(name); obj != nil {
		return env.fromObject(obj)
	}
	if obj := types.Universe.Lookup(name); obj != nil {
		if c, ok := obj.(*types.Const); ok {
			return EVal{C: c.Val(), T: c.Type()}, true
		}
	}
	return EVal{}, false
}

func (env *Env) fromObject(obj types.Object) (EVal, bool) {
	switch o := obj.(type) {
	case *types.Const:
		if b, ok := o.Type().Underlying().(*types.Basic); ok && b.Info()&types.IsUntyped != 0 {
			return EVal{C: o.Val(), T: o.Type()}, true
		}
		return env.asType(EVal{C: o.Val()}, o.Type()), true
	case *types.Var:
		sp := env.tr.P.pkgs[o.Pkg().Path()]
		if sp == nil {
			return EVal{}, false
		}
		g, ok := sp.Members[o.Name()].(*ssa.Global)
		if !ok {
			return EVal{}, false
		}
		if v, ok := env.tr.immutableGlobal(g); ok {
			return EVal{V: v, T: o.Type()}, true
		}
		// mutable global: load from the current state
		reg := env.tr.globalRegion(g)
		ls := shape(o.Type())
		v := env.tr.loadLeaves(env.curState(), ls, reg, env.f().BVi(64, 0))
		return EVal{V: v, T: o.Type()}, true
	}
	return EVal{}, false
}

// loaded registers the type invariants of a value loaded from memory while evaluating a contract.
func (env *Env) loaded(ls []leaf, v Val) {
	bm := map[*Term]bool{}
	bound := false
	for _, t := range v {
		if containsBound(t, bm) {
			bound = true
		}
	}
	if !bound {
		env.tr.heapClosure(env.curState(), ls, v)
		env.tr.assumeInv(ls, v)
		return
	}
	if env.pending == nil {
		return
	}
	f := env.f()
	a := env.tr.get(env.curState(), "alloc")
	for i, l := range ls {
		switch l.kind {
		case "ptr.reg", "sl.reg", "if.reg":
			*env.pending = append(*env.pending, f.ULt(v[i], a))
		}
		if l.kind == "sl.reg" {
			z := f.BVi(64, 0)
			*env.pending = append(*env.pending, f.And(f.SLe(z, v[i+2]), f.SLe(v[i+2], v[i+3]), f.SLe(v[i+3], env.tr.maxLen)))
		}
	}
}

func (env *Env) curState() *State {
	if env.inOld && env.old != nil {
		return env.old
	}
	return env.st
}

func (env *Env) lookupType(e ast.Expr) types.Type {
	switch x := e.(type) {
	case *ast.Ident:
		if _, shadow := env.vars[x.Name]; shadow {
			return nil
		}
		if obj := env.pkg.Scope().Lookup(x.Name); obj != nil {
			if tn, ok := obj.(*types.TypeName); ok {
				return tn.Type()
			}
			return nil
		}
		if obj := types.Universe.Lookup(x.Name); obj != nil {
			if tn, ok := obj.(*types.TypeName); ok {
				return tn.Type()
			}
		}
	case *ast.SelectorExpr:
		if id, ok := x.X.(*ast.Ident); ok {
			if p := env.importedPkg(id.Name); p != nil {
				if tn, ok := p.Scope().Lookup(x.Sel.Name).(*types.TypeName); ok {
					return tn.Type()
				}
			}
		}
	case *ast.StarExpr:
		if t := env.lookupType(x.X); t != nil {
			return types.NewPointer(t)
		}
	case *ast.ParenExpr:
		return env.lookupType(x.X)
	case *ast.ArrayType:
		if x.Len == nil {
			if t := env.lookupType(x.Elt); t != nil {
				return types.NewSlice(t)
			}
		}
	}
	return nil
}

func (env *Env) importedPkg(name string) *types.Package {
	if _, shadow := env.vars[name]; shadow {
		return nil
	}
	for _, imp := range env.pkg.Imports() {
		if imp.Name() == name {
			return imp
		}
	}
	// any loaded package with that name (contracts may mention io.EOF even if the package imports io under another name)
	for path, tp := range env.tr.P.tpkgs {
		if tp.Types != nil && tp.Types.Name() == name && (path == name || strings.HasSuffix(path, "/"+name)) {
			return tp.Types
		}
	}
	return nil
}

func (env *Env) eval(e ast.Expr) EVal {
	f := env.f()
	switch x := e.(type) {
	case *ast.ParenExpr:
		return env.eval(x.X)
	case *ast.BasicLit:
		switch x.Kind {
		case token.INT, token.CHAR:
			return EVal{C: constant.MakeFromLiteral(x.Value, x.Kind, 0), T: types.Typ[types.UntypedInt]}
		case token.STRING:
			s, _ := strconv.Unquote(x.Value)
			return EVal{C: constant.MakeString(s), T: types.Typ[types.UntypedString]}
		}
		env.fail("unsupported literal %s", x.Value)
	case *ast.Ident:
		if v, ok := env.lookupIdent(x.Name); ok {
			return v
		}
		env.fail("unknown identifier %q", x.Name)
	case *ast.UnaryExpr:
		v := env.eval(x.X)
		switch x.Op {
		case token.NOT:
			v = env.defaultType(v)
			return env.boolVal(f.Not(v.V[0]))
		case token.SUB:
			if v.C != nil {
				return EVal{C: constant.UnaryOp(token.SUB, v.C, 0), T: v.T}
			}
			if v.Ghost == "int" {
				return EVal{V: Val{f.ISub(f.IntC(0), v.V[0])}, Ghost: "int"}
			}
			return EVal{V: Val{f.Neg(v.V[0])}, T: v.T}
		case token.XOR:
			if v.C != nil {
				env.fail("^ on untyped constant needs a type")
			}
			return EVal{V: Val{f.BNot(v.V[0])}, T: v.T}
		}
		env.fail("unsupported unary %s", x.Op)
	case *ast.StarExpr:
		v := env.eval(x.X)
		pt, ok := v.T.Underlying().(*types.Pointer)
		if !ok {
			env.fail("* of non-pointer")
		}
		ls := shape(pt.Elem())
		return EVal{V: env.tr.loadLeaves(env.curState(), ls, v.V[0], v.V[1]), T: pt.Elem()}
	case *ast.BinaryExpr:
		return env.binary(x)
	case *ast.CallExpr:
		return env.callExpr(x)
	case *ast.SelectorExpr:
		return env.selector(x)
	case *ast.IndexExpr:
		return env.indexExpr(x)
	case *ast.SliceExpr:
		return env.sliceExpr(x)
	}
	env.fail("unsupported expression %T", e)
	return EVal{}
}

func (env *Env) unify(a, b EVal) (EVal, EVal) {
	switch {
	case a.C != nil && b.C != nil:
		return a, b
	case a.C != nil:
		if b.Ghost == "int" {
			return env.asType(a, nil), b
		}
		return env.asType(a, b.T), b
	case b.C != nil:
		if a.Ghost == "int" {
			return a, env.asType(b, nil)
		}
		return a, env.asType(b, a.T)
	}
	return a, b
}

func (env *Env) binary(x *ast.BinaryExpr) EVal {
	f := env.f()
	switch x.Op {
	case token.LAND, token.LOR:
		a, b := env.defaultType(env.eval(x.X)), env.defaultType(env.eval(x.Y))
		if len(a.V) != 1 || len(b.V) != 1 || a.V[0].S != SBool || b.V[0].S != SBool {
			env.fail("&&/|| on non-boolean")
		}
		if x.Op == token.LAND {
			return env.boolVal(f.And(a.V[0], b.V[0]))
		}
		return env.boolVal(f.Or(a.V[0], b.V[0]))
	}
	a, b := env.eval(x.X), env.eval(x.Y)
	// nil comparisons
	if a.Ghost == "nil" || b.Ghost == "nil" {
		o := b
		if a.Ghost != "nil" {
			o = a
		}
		if o.Ghost == "nil" {
			return env.boolVal(f.Bool(x.Op == token.EQL))
		}
		if len(o.V) == 0 {
			env.fail("nil comparison with empty value")
		}
		e := f.Eq(o.V[0], f.BVi(64, 0))
		if x.Op == token.NEQ {
			e = f.Not(e)
		} else if x.Op != token.EQL {
			env.fail("bad nil comparison")
		}
		return env.boolVal(e)
	}
	if a.C != nil && b.C != nil {
		switch x.Op {
		case token.EQL, token.NEQ, token.LSS, token.LEQ, token.GTR, token.GEQ:
			return env.boolVal(f.Bool(constant.Compare(a.C, x.Op, b.C)))
		case token.SHL, token.SHR:
			n, _ := constant.Uint64Val(b.C)
			return EVal{C: constant.Shift(a.C, x.Op, uint(n)), T: a.T}
		case token.QUO:
			return EVal{C: constant.BinaryOp(constant.ToInt(a.C), token.QUO_ASSIGN, constant.ToInt(b.C)), T: a.T}
		}
		return EVal{C: constant.BinaryOp(a.C, x.Op, b.C), T: a.T}
	}
	if x.Op == token.SHL || x.Op == token.SHR {
		// shift: right operand any unsigned/const
		a = env.defaultType(a)
		w, sg, ok := intLeaf(a.T)
		if !ok {
			env.fail("shift of non-integer")
		}
		var cnt *Term
		yw := w
		if b.C != nil {
			n, _ := constant.Int64Val(b.C)
			cnt = f.BVi(w, n)
		} else {
			yw, _, _ = intLeaf(b.T)
			cnt = b.V[0]
		}
		return EVal{V: Val{env.tr.shift(x.Op, a.V[0], cnt, w, sg, yw)}, T: a.T}
	}
	a, b = env.unify(a, b)
	if a.Ghost == "int" || b.Ghost == "int" {
		if a.Ghost != "int" || b.Ghost != "int" {
			env.fail("mixing ghost Int with machine integers in %s (use int(...) / mathint(...))", x.Op)
		}
		p, q := a.V[0], b.V[0]
		switch x.Op {
		case token.ADD:
			return EVal{V: Val{f.IAdd(p, q)}, Ghost: "int"}
		case token.SUB:
			return EVal{V: Val{f.ISub(p, q)}, Ghost: "int"}
		case token.EQL:
			return env.boolVal(f.Eq(p, q))
		case token.NEQ:
			return env.boolVal(f.Neq(p, q))
		case token.LSS:
			return env.boolVal(f.ILt(p, q))
		case token.LEQ:
			return env.boolVal(f.ILe(p, q))
		case token.GTR:
			return env.boolVal(f.ILt(q, p))
		case token.GEQ:
			return env.boolVal(f.ILe(q, p))
		}
		env.fail("unsupported ghost Int operator %s", x.Op)
	}
	if a.T == nil || b.T == nil {
		env.fail("binary %s on ghost value", x.Op)
	}
	switch x.Op {
	case token.EQL, token.NEQ:
		if len(a.V) != len(b.V) {
			env.fail("== on values of different shape (%s vs %s)", a.T, b.T)
		}
		e := env.tr.eqVals(a.T, a.V, b.V, nil, nil)
		if x.Op == token.NEQ {
			e = f.Not(e)
		}
		return env.boolVal(e)
	}
	w, sg, ok := intLeaf(a.T)
	w2, sg2, ok2 := intLeaf(b.T)
	if !ok || !ok2 {
		if isBool(a.T) && isBool(b.T) {
			env.fail("operator %s on booleans", x.Op)
		}
		env.fail("operator %s on non-integers (%s, %s)", x.Op, a.T, b.T)
	}
	if w != w2 || sg != sg2 {
		env.fail("operator %s on mismatched integer types %s and %s", x.Op, a.T, b.T)
	}
	p, q := a.V[0], b.V[0]
	iv := func(t *Term) EVal { return EVal{V: Val{t}, T: a.T} }
	switch x.Op {
	case token.ADD:
		return iv(f.Add(p, q))
	case token.SUB:
		return iv(f.Sub(p, q))
	case token.MUL:
		return iv(f.Mul(p, q))
	case token.QUO:
		if sg {
			return iv(f.SDiv(p, q))
		}
		return iv(f.UDiv(p, q))
	case token.REM:
		if sg {
			return iv(f.SRem(p, q))
		}
		return iv(f.URem(p, q))
	case token.AND:
		return iv(f.BAnd(p, q))
	case token.OR:
		return iv(f.BOr(p, q))
	case token.XOR:
		return iv(f.BXor(p, q))
	case token.AND_NOT:
		return iv(f.BAnd(p, f.BNot(q)))
	case token.LSS:
		if sg {
			return env.boolVal(f.SLt(p, q))
		}
		return env.boolVal(f.ULt(p, q))
	case token.LEQ:
		if sg {
			return env.boolVal(f.SLe(p, q))
		}
		return env.boolVal(f.ULe(p, q))
	case token.GTR:
		if sg {
			return env.boolVal(f.SLt(q, p))
		}
		return env.boolVal(f.ULt(q, p))
	case token.GEQ:
		if sg {
			return env.boolVal(f.SLe(q, p))
		}
		return env.boolVal(f.ULe(q, p))
	}
	env.fail("unsupported operator %s", x.Op)
	return EVal{}
}

func (env *Env) selector(x *ast.SelectorExpr) EVal {
	f := env.f()
	// package-qualified
	if id, ok := x.X.(*ast.Ident); ok {
		if _, isVar := env.lookupIdentQuiet(id.Name); !isVar {
			if p := env.importedPkg(id.Name); p != nil {
				obj := p.Scope().Lookup(x.Sel.Name)
				if obj == nil {
					env.fail("%s.%s not found", id.Name, x.Sel.Name)
				}
				if v, ok := env.fromObject(obj); ok {
					return v
				}
				env.fail("%s.%s not usable in a contract", id.Name, x.Sel.Name)
			}
		}
	}
	v := env.eval(x.X)
	switch v.Ghost {
	case "log":
		if x.Sel.Name == "len" {
			return EVal{V: Val{env.tr.get(env.curState(), "ev.len")}, Ghost: "int"}
		}
		if x.Sel.Name == "epoch" {
			return EVal{V: Val{env.tr.get(env.curState(), "epoch")}, T: types.Typ[types.Uint64]}
		}
		env.fail("unknown log attribute %s", x.Sel.Name)
	case "event":
		st := env.curState()
		switch x.Sel.Name {
		case "off":
			return EVal{V: Val{f.Select(env.tr.get(st, "ev.off"), v.Ev)}, T: types.Typ[types.Int64]}
		case "n":
			return EVal{V: Val{f.Select(env.tr.get(st, "ev.n"), v.Ev)}, T: types.Typ[types.Int64]}
		case "kind":
			return EVal{V: Val{f.Select(env.tr.get(st, "ev.kind"), v.Ev)}, T: types.Typ[types.Uint64]}
		case "dev":
			return EVal{V: Val{f.Select(env.tr.get(st, "ev.dev"), v.Ev)}, T: types.Typ[types.Uint64]}
		case "epoch":
			return EVal{V: Val{f.Select(env.tr.get(st, "ev.epoch"), v.Ev)}, T: types.Typ[types.Uint64]}
		case "res":
			return EVal{V: Val{f.Select(env.tr.get(st, "ev.res"), v.Ev)}, T: types.Typ[types.Int64]}
		case "data":
			n := f.Select(env.tr.get(st, "ev.n"), v.Ev)
			return EVal{V: Val{f.BVi(64, 0), f.Select(env.tr.get(st, "ev.boff"), v.Ev), n, n}, T: types.NewSlice(types.Typ[types.Uint8]), Arr: f.Select(env.tr.get(st, "ev.buf"), v.Ev)}
		case "crc":
			buf := f.Select(env.tr.get(st, "ev.buf"), v.Ev)
			return EVal{V: Val{f.App("crc32", S32, buf, f.Select(env.tr.get(st, "ev.boff"), v.Ev), f.Select(env.tr.get(st, "ev.n"), v.Ev))}, T: types.Typ[types.Uint32]}
		case "failed":
			return env.boolVal(f.Neq(f.Select(env.tr.get(st, "ev.err"), v.Ev), f.BVi(64, 0)))
		}
		env.fail("unknown event attribute %s", x.Sel.Name)
	}
	if v.T == nil {
		env.fail("selector on ghost value")
	}
	return env.field(v, x.Sel.Name)
}

func (env *Env) lookupIdentQuiet(name string) (v EVal, ok bool) {
	if _, ok := env.vars[name]; ok {
		return EVal{}, true
	}
	if _, ok := env.macros[name]; ok {
		return EVal{}, true
	}
	if env.fr != nil {
		if _, ok := env.tr.lookupLocal(env, name); ok {
			return EVal{}, true
		}
	}
	return EVal{}, false
}

func (env *Env) field(v EVal, name string) EVal {
	obj, index, _ := types.LookupFieldOrMethod(v.T, true, env.pkg, name)
	fld, ok := obj.(*types.Var)
	if !ok || fld == nil {
		// try with the defining package of the type (unexported fields of other repo packages)
		if n := namedOf(v.T); n != nil && n.Obj().Pkg() != nil {
			obj, index, _ = types.LookupFieldOrMethod(v.T, true, n.Obj().Pkg(), name)
			fld, ok = obj.(*types.Var)
		}
		if !ok || fld == nil {
			env.fail("no field %s in %s", name, v.T)
		}
	}
	cur := v
	for _, idx := range index {
		t := cur.T
		if pt, ok := t.Underlying().(*types.Pointer); ok {
			st := pt.Elem().Underlying().(*types.Struct)
			ft := st.Field(idx).Type()
			off := env.f().AddC(cur.V[1], int64(fieldOffset(st, idx)))
			ls := shape(ft)
			lv := env.tr.loadLeaves(env.curState(), ls, cur.V[0], off)
			env.loaded(ls, lv)
			cur = EVal{V: lv, T: ft}
			continue
		}
		st, ok := t.Underlying().(*types.Struct)
		if !ok {
			env.fail("field selection on %s", t)
		}
		off := fieldOffset(st, idx)
		ft := st.Field(idx).Type()
		cur = EVal{V: cur.V[off : off+nleaves(ft)], T: ft}
	}
	return cur
}

func namedOf(t types.Type) *types.Named {
	if p, ok := t.(*types.Pointer); ok {
		t = p.Elem()
	}
	n, _ := t.(*types.Named)
	return n
}

func (env *Env) toIndex64(v EVal) *Term {
	f := env.f()
	if v.C != nil {
		n, _ := constant.Int64Val(constant.ToInt(v.C))
		return f.BVi(64, n)
	}
	if v.Ghost == "int" {
		env.fail("ghost Int used as a machine index")
	}
	w, sg, ok := intLeaf(v.T)
	if !ok {
		env.fail("index is not an integer")
	}
	_ = w
	return f.Ext(v.V[0], 64, sg)
}

func (env *Env) indexExpr(x *ast.IndexExpr) EVal {
	f := env.f()
	base := env.eval(x.X)
	if base.Ghost == "log" {
		k := env.eval(x.Index)
		k = env.asGhostInt(k)
		return EVal{Ghost: "event", Ev: k.V[0]}
	}
	idx := env.eval(x.Index)
	if base.T == nil {
		env.fail("index of ghost value")
	}
	switch u := base.T.Underlying().(type) {
	case *types.Slice:
		i := env.toIndex64(idx)
		if base.Arr != nil {
			return EVal{V: Val{f.Select(base.Arr, f.Add(base.V[1], i))}, T: u.Elem()}
		}
		n := int64(nleaves(u.Elem()))
		off := f.Add(base.V[1], f.Mul(i, f.BVi(64, n)))
		lv := env.tr.loadLeaves(env.curState(), shape(u.Elem()), base.V[0], off)
		env.loaded(shape(u.Elem()), lv)
		return EVal{V: lv, T: u.Elem()}
	case *types.Array:
		n := nleaves(u.Elem())
		if idx.C != nil {
			k, _ := constant.Int64Val(constant.ToInt(idx.C))
			if k < 0 || k >= u.Len() {
				env.fail("constant array index out of range")
			}
			return EVal{V: base.V[int(k)*n : int(k+1)*n], T: u.Elem()}
		}
		i := env.toIndex64(idx)
		out := make(Val, n)
		for j := 0; j < n; j++ {
			t := base.V[(int(u.Len())-1)*n+j]
			for k := int(u.Len()) - 2; k >= 0; k-- {
				t = f.Ite(f.Eq(i, f.BVi(64, int64(k))), base.V[k*n+j], t)
			}
			out[j] = t
		}
		return EVal{V: out, T: u.Elem()}
	case *types.Pointer:
		if a, ok := u.Elem().Underlying().(*types.Array); ok {
			i := env.toIndex64(idx)
			n := int64(nleaves(a.Elem()))
			off := f.Add(base.V[1], f.Mul(i, f.BVi(64, n)))
			return EVal{V: env.tr.loadLeaves(env.curState(), shape(a.Elem()), base.V[0], off), T: a.Elem()}
		}
	case *types.Basic:
		if isString(base.T) {
			i := env.toIndex64(idx)
			return EVal{V: Val{f.Select(f.App("strbytes", ArrS(S64, S8), base.V[0]), i)}, T: types.Typ[types.Uint8]}
		}
	case *types.Map:
		k := idx
		if k.C != nil {
			k = env.asType(k, u.Key())
		}
		v, _ := env.tr.mapGet(env.curState(), base.T, base.V[0], k.V)
		return EVal{V: v, T: u.Elem()}
	}
	env.fail("cannot index %s", base.T)
	return EVal{}
}

func (env *Env) asGhostInt(v EVal) EVal {
	if v.C != nil {
		return env.asType(v, nil)
	}
	if v.Ghost == "int" {
		return v
	}
	env.fail("expected a ghost Int (log index)")
	return v
}

func (env *Env) sliceExpr(x *ast.SliceExpr) EVal {
	f := env.f()
	base := env.eval(x.X)
	u, ok := base.T.Underlying().(*types.Slice)
	if !ok {
		env.fail("slice expression on %s", base.T)
	}
	n := int64(nleaves(u.Elem()))
	lo := f.BVi(64, 0)
	hi := base.V[2]
	if x.Low != nil {
		lo = env.toIndex64(env.eval(x.Low))
	}
	if x.High != nil {
		hi = env.toIndex64(env.eval(x.High))
	}
	return EVal{V: Val{base.V[0], f.Add(base.V[1], f.Mul(lo, f.BVi(64, n))), f.Sub(hi, lo), f.Sub(base.V[3], lo)}, T: base.T, Arr: base.Arr}
}

// ---------- calls: builtins, spec functions, conversions, preds

func (env *Env) byteAt(s EVal, i *Term) *Term {
	f := env.f()
	if s.T == nil {
		env.fail("expected a []byte")
	}
	u, ok := s.T.Underlying().(*types.Slice)
	if !ok || nleaves(u.Elem()) != 1 || shape(u.Elem())[0].S != S8 {
		env.fail("expected a []byte")
	}
	if s.Arr != nil {
		return f.Select(s.Arr, f.Add(s.V[1], i))
	}
	return env.tr.heapSel(env.curState(), S8, s.V[0], f.Add(s.V[1], i))
}

// byteArray: the array holding the bytes of s (ghost array or heap region contents).
func (env *Env) byteArray(s EVal) *Term {
	if s.Arr != nil {
		return s.Arr
	}
	return env.tr.inner(env.curState(), "8", s.V[0])
}

func (env *Env) callExpr(x *ast.CallExpr) EVal {
	f := env.f()
	// conversion?
	if len(x.Args) == 1 {
		if t := env.lookupType(x.Fun); t != nil {
			return env.conversion(env.eval(x.Args[0]), t)
		}
	}
	name := ""
	switch fn := x.Fun.(type) {
	case *ast.Ident:
		name = fn.Name
	case *ast.SelectorExpr:
		// method-like ghost accessors: W[k].byte(j)
		recv := env.eval(fn.X)
		if recv.Ghost == "event" && fn.Sel.Name == "byte" {
			j := env.toIndex64(env.eval(x.Args[0]))
			st := env.curState()
			buf := f.Select(env.tr.get(st, "ev.buf"), recv.Ev)
			boff := f.Select(env.tr.get(st, "ev.boff"), recv.Ev)
			return EVal{V: Val{f.Select(buf, f.Add(boff, j))}, T: types.Typ[types.Uint8]}
		}
		env.fail("unsupported call %s", exprString(x.Fun))
	default:
		env.fail("unsupported call expression")
	}
	argN := func(n int) {
		if len(x.Args) != n {
			env.fail("%s expects %d arguments", name, n)
		}
	}
	switch name {
	case "len", "cap":
		argN(1)
		v := env.eval(x.Args[0])
		if v.C != nil && v.C.Kind() == constant.String {
			return env.constInt(constant.MakeInt64(int64(len(constant.StringVal(v.C)))))
		}
		switch u := v.T.Underlying().(type) {
		case *types.Slice:
			if name == "len" {
				return EVal{V: Val{v.V[2]}, T: tInt}
			}
			return EVal{V: Val{v.V[3]}, T: tInt}
		case *types.Basic:
			if isString(v.T) {
				return EVal{V: Val{v.V[1]}, T: tInt}
			}
		case *types.Array:
			return env.constInt(constant.MakeInt64(u.Len()))
		case *types.Map:
			return EVal{V: Val{env.tr.mapLen(env.curState(), v.T, v.V[0])}, T: tInt}
		}
		env.fail("len of %s", v.T)
	case "old":
		argN(1)
		sub := *env
		if env.old == nil {
			sub.old = env.st
		}
		sub.inOld = true
		return sub.eval(x.Args[0])
	case "entry":
		// entry(e): value of e when the enclosing loop was entered (loop invariants only)
		argN(1)
		if env.li == nil || env.li.entrySt == nil || env.fr == nil {
			env.fail("entry() is only available in loop invariants")
		}
		sub := *env
		sub.st = env.li.entrySt
		sub.inOld = false
		saved := env.fr.overrides
		env.fr.overrides = env.li.entryVals
		defer func() { env.fr.overrides = saved }()
		return sub.eval(x.Args[0])
	case "implies":
		argN(2)
		a, b := env.eval(x.Args[0]), env.eval(x.Args[1])
		return env.boolVal(f.Implies(a.V[0], b.V[0]))
	case "ite":
		argN(3)
		c := env.eval(x.Args[0])
		a, b := env.unify(env.eval(x.Args[1]), env.eval(x.Args[2]))
		a, b = env.defaultType(a), env.defaultType(b)
		out := make(Val, len(a.V))
		for i := range a.V {
			out[i] = f.Ite(c.V[0], a.V[i], b.V[i])
		}
		return EVal{V: out, T: a.T, Ghost: a.Ghost}
	case "forall", "exists":
		argN(4)
		id, ok := x.Args[0].(*ast.Ident)
		if !ok {
			env.fail("%s: first argument must be a variable name", name)
		}
		lo, hi := env.eval(x.Args[1]), env.eval(x.Args[2])
		lo, hi = env.unify(lo, hi)
		sub := env.child()
		var bv *Term
		var rng *Term
		if lo.Ghost == "int" || hi.Ghost == "int" {
			lo, hi = env.asGhostInt(lo), env.asGhostInt(hi)
			bv = f.BoundVar(id.Name, GhostIdxSort())
			sub.vars[id.Name] = EVal{V: Val{bv}, Ghost: "int"}
			rng = f.And(f.ILe(lo.V[0], bv), f.ILt(bv, hi.V[0]))
		} else {
			lo, hi = env.defaultType(lo), env.defaultType(hi)
			w, sg, ok := intLeaf(lo.T)
			if !ok {
				env.fail("%s: bounds must be integers", name)
			}
			bv = f.BoundVar(id.Name, BVS(w))
			sub.vars[id.Name] = EVal{V: Val{bv}, T: lo.T}
			if sg {
				rng = f.And(f.SLe(lo.V[0], bv), f.SLt(bv, hi.V[0]))
			} else {
				rng = f.And(f.ULe(lo.V[0], bv), f.ULt(bv, hi.V[0]))
			}
		}
		var pend []*Term
		sub.pending = &pend
		body := sub.eval(x.Args[3])
		if len(pend) > 0 {
			// facts about values loaded under the binder hold for every index in range (heap well-formedness)
			fact := f.Forall([]*Term{bv}, f.Implies(rng, f.And(pend...)))
			if containsBound(fact, map[*Term]bool{}) && freeBoundVars(fact) {
				// still mentions a variable of an enclosing quantifier: hand it to that binder
				if env.pending != nil {
					*env.pending = append(*env.pending, fact)
				}
			} else {
				env.tr.assume(fact, "well-formedness of values loaded under a quantifier")
			}
		}
		if name == "forall" {
			return env.boolVal(f.Forall([]*Term{bv}, f.Implies(rng, body.V[0])))
		}
		return env.boolVal(f.Exists([]*Term{bv}, f.And(rng, body.V[0])))
	case "le16", "le32", "le64", "be16", "be32", "be64":
		argN(2)
		s := env.eval(x.Args[0])
		off := env.toIndex64(env.eval(x.Args[1]))
		nb := map[string]int{"16": 2, "32": 4, "64": 8}[name[2:]]
		var t *Term
		for k := 0; k < nb; k++ {
			b := env.byteAt(s, f.AddC(off, int64(k)))
			if t == nil {
				t = b
			} else if name[0] == 'l' {
				t = f.Concat(b, t)
			} else {
				t = f.Concat(t, b)
			}
		}
		return EVal{V: Val{t}, T: map[int]types.Type{2: types.Typ[types.Uint16], 4: types.Typ[types.Uint32], 8: types.Typ[types.Uint64]}[nb]}
	case "bytes_eq":
		// bytes_eq(a, b): same length and contents
		argN(2)
		a, b := env.eval(x.Args[0]), env.eval(x.Args[1])
		i := f.BoundVar("i", S64)
		return env.boolVal(f.And(f.Eq(a.V[2], b.V[2]),
			f.Forall([]*Term{i}, f.Implies(f.And(f.SLe(f.BVi(64, 0), i), f.SLt(i, a.V[2])), f.Eq(env.byteAt(a, i), env.byteAt(b, i))))))
	case "allzero":
		argN(1)
		a := env.eval(x.Args[0])
		i := f.BoundVar("i", S64)
		return env.boolVal(f.Forall([]*Term{i}, f.Implies(f.And(f.SLe(f.BVi(64, 0), i), f.SLt(i, a.V[2])), f.Eq(env.byteAt(a, i), f.BVi(8, 0)))))
	case "dev", "ident":
		argN(1)
		v := env.eval(x.Args[0])
		return EVal{V: Val{env.identity(v)}, T: types.Typ[types.Uint64]}
	case "region":
		argN(1)
		v := env.eval(x.Args[0])
		if len(v.V) == 0 {
			env.fail("region of empty value")
		}
		k := 0
		if isIface(v.T) {
			k = 1
		}
		return EVal{V: Val{v.V[k]}, T: types.Typ[types.Uint64]}
	case "fresh":
		// fresh(x): x's region was allocated during the call (>= allocation counter at entry)
		argN(1)
		v := env.eval(x.Args[0])
		k := 0
		if isIface(v.T) {
			k = 1
		}
		if env.allocAtEntry == nil {
			env.fail("fresh() not available here")
		}
		return env.boolVal(f.And(f.ULe(env.allocAtEntry, v.V[k]), f.ULt(v.V[k], env.tr.get(env.st, "alloc"))))
	case "guidparse":
		// the 16 bytes uuid.Parse yields for a string (uninterpreted, deterministic)
		argN(1)
		v := env.defaultType(env.eval(x.Args[0]))
		out := make(Val, 16)
		for i := 0; i < 16; i++ {
			out[i] = f.App(fmt.Sprintf("uuid_parse_%d", i), S8, v.V[0])
		}
		return EVal{V: out, T: types.NewArray(types.Typ[types.Uint8], 16)}
	case "guidok":
		argN(1)
		v := env.defaultType(env.eval(x.Args[0]))
		return env.boolVal(f.App("uuid_parse_ok", SBool, v.V[0]))
	case "guidmixed":
		// the 16 bytes at b[off:] read in GPT's mixed-endian order (first three groups byte-swapped)
		argN(2)
		s := env.eval(x.Args[0])
		off := env.toIndex64(env.eval(x.Args[1]))
		perm := []int64{3, 2, 1, 0, 5, 4, 7, 6, 8, 9, 10, 11, 12, 13, 14, 15}
		out := make(Val, 16)
		for i := 0; i < 16; i++ {
			out[i] = env.byteAt(s, f.AddC(off, perm[i]))
		}
		return EVal{V: out, T: types.NewArray(types.Typ[types.Uint8], 16)}
	case "guidstring":
		// canonical upper-case string of a 16-byte GUID value (as produced by uuid.String + strings.ToUpper)
		argN(1)
		v := env.eval(x.Args[0])
		var t *Term
		for _, b := range v.V {
			if t == nil {
				t = b
			} else {
				t = f.Concat(t, b)
			}
		}
		id := f.App("strings.ToUpper", S64, f.App("uuid_string", S64, t))
		return EVal{V: Val{id, f.App("strlen", S64, id)}, T: types.Typ[types.String]}
	case "isobj":
		// isobj(p): p points to the start of an object that was allocated with p's element type
		argN(1)
		v := env.eval(x.Args[0])
		pt, ok := v.T.Underlying().(*types.Pointer)
		if !ok {
			env.fail("isobj needs a pointer")
		}
		return env.boolVal(f.And(f.Eq(env.tr.rtype(v.V[0]), f.BVu(64, typeTag(pt.Elem()))), f.Eq(v.V[1], f.BVi(64, 0))))
	case "isarray":
		// isarray(s): s is backed by an array allocated as a slice of its element type
		argN(1)
		v := env.eval(x.Args[0])
		if !isSlice(v.T) {
			env.fail("isarray needs a slice")
		}
		return env.boolVal(f.Eq(env.tr.rtype(v.V[0]), f.BVu(64, typeTag(v.T.Underlying()))))
	case "devsize":
		// devsize(f): size in bytes of the device behind f (what Seek(0, io.SeekEnd) reports)
		argN(1)
		v := env.eval(x.Args[0])
		sz := f.App("devsize", S64, env.identity(v))
		if !containsBound(sz, map[*Term]bool{}) {
			env.tr.assume(f.And(f.SLe(f.BVi(64, 0), sz), f.SLe(sz, f.BVu(64, 1<<60))), "device size is non-negative (and below 1 EiB)")
		}
		return EVal{V: Val{sz}, T: types.Typ[types.Int64]}
	case "implements":
		// implements(x, "interface{...}"): the dynamic type of x has the methods of the given interface (type assertion succeeds)
		argN(2)
		v := env.eval(x.Args[0])
		nm := env.eval(x.Args[1])
		if nm.C == nil || nm.C.Kind() != constant.String {
			env.fail("implements: second argument must be a string literal")
		}
		return env.boolVal(f.And(f.Neq(v.V[0], f.BVi(64, 0)), f.App("implements_"+sanitize(fmt.Sprintf("%x", strHash(constant.StringVal(nm.C)))), SBool, v.V[0])))
	case "has":
		// has(m, k): key k is present in map m
		argN(2)
		m := env.eval(x.Args[0])
		mt, ok := m.T.Underlying().(*types.Map)
		if !ok {
			env.fail("has: first argument must be a map")
		}
		k := env.eval(x.Args[1])
		if k.C != nil {
			k = env.asType(k, mt.Key())
		}
		_, present := env.tr.mapGet(env.curState(), m.T, m.V[0], k.V)
		return env.boolVal(present)
	case "emptymap":
		// emptymap(m): no key is present in map m (the presence set is the empty set, and the length is 0)
		argN(1)
		m := env.eval(x.Args[0])
		if _, ok := m.T.Underlying().(*types.Map); !ok {
			env.fail("emptymap: argument must be a map")
		}
		if !env.tr.mapDecl(m.T) {
			env.fail("emptymap: unsupported key type")
		}
		ks := mapKeySort(m.T)
		st := env.curState()
		pres := f.Select(env.tr.get(st, mapComp(m.T, "p")), m.V[0])
		return env.boolVal(f.And(f.Eq(pres, f.ConstArr(ArrS(ks, SBool), f.False())), f.Eq(env.tr.mapLen(st, m.T, m.V[0]), f.BVi(64, 0))))
	case "sameslice":
		// sameslice(x, y): same backing region, offset and length (y is typically a slice expression over a parameter)
		argN(2)
		a, b := env.eval(x.Args[0]), env.eval(x.Args[1])
		if !isSlice(a.T) || !isSlice(b.T) {
			env.fail("sameslice needs two slices")
		}
		return env.boolVal(f.And(f.Eq(a.V[0], b.V[0]), f.Eq(a.V[1], b.V[1]), f.Eq(a.V[2], b.V[2])))
	case "written":
		// written(w): total number of bytes passed to w.Write so far (ghost counter of an io.Writer)
		argN(1)
		v := env.eval(x.Args[0])
		cnt := f.Select(env.tr.get(env.curState(), "wcount"), env.identity(v))
		if !containsBound(cnt, map[*Term]bool{}) {
			env.tr.assume(f.And(f.SLe(f.BVi(64, 0), cnt), f.SLe(cnt, f.BVu(64, 1<<60))), "byte counters of writers are non-negative (and below 2^60)")
		}
		return EVal{V: Val{cnt}, T: types.Typ[types.Int64]}
	case "stream":
		// stream(r, pos): byte number pos of the fixed sequence reader r delivers
		argN(2)
		v := env.eval(x.Args[0])
		pos := env.defaultType(env.eval(x.Args[1]))
		return EVal{V: Val{f.App("stream", S8, env.identity(v), f.Ext(pos.V[0], 64, true))}, T: types.Typ[types.Uint8]}
	case "streamlen":
		argN(1)
		v := env.eval(x.Args[0])
		return EVal{V: Val{f.App("streamlen", S64, env.identity(v))}, T: types.Typ[types.Int64]}
	case "m":
		// m(x, "Name"): result of the side-effect-free accessor x.Name() of a foreign interface value (fs.FileInfo, fs.DirEntry ...),
		// the same uninterpreted function the verifier uses when the code calls it
		argN(2)
		v := env.eval(x.Args[0])
		lit, ok := x.Args[1].(*ast.BasicLit)
		if !ok || !isIface(v.T) {
			env.fail("m(x, \"Method\") needs an interface value and a method name")
		}
		name := strings.Trim(lit.Value, "\"")
		if n, ok := v.T.(*types.Named); ok && n.Obj().Pkg() != nil {
			if ic := env.tr.P.ifaceC[n.Obj().Pkg().Path()+"."+n.Obj().Name()+"."+name]; ic != nil && ic.Pure {
				ms := types.NewMethodSet(v.T)
				for i := 0; i < ms.Len(); i++ {
					if ms.At(i).Obj().Name() == name {
						sg := ms.At(i).Type().(*types.Signature)
						if sg.Params().Len() == 0 && sg.Results().Len() == 1 {
							rt := sg.Results().At(0).Type()
							return EVal{V: env.tr.pureAccessorVal(env.curState(), name, v.V, rt), T: rt}
						}
					}
				}
			}
		}
		if !pureAccessor(name) {
			env.fail("m(): %s is not a modelled accessor", name)
		}
		ms := types.NewMethodSet(v.T)
		var rt types.Type
		for i := 0; i < ms.Len(); i++ {
			if ms.At(i).Obj().Name() == name {
				sg := ms.At(i).Type().(*types.Signature)
				if sg.Params().Len() == 0 && sg.Results().Len() == 1 {
					rt = sg.Results().At(0).Type()
				}
			}
		}
		if rt == nil {
			env.fail("m(): no accessor %s on %s", name, v.T)
		}
		ls := shape(rt)
		out := make(Val, len(ls))
		for i, l := range ls {
			out[i] = f.App(fmt.Sprintf("m_%s_%d", name, i), l.S, v.V[1], v.V[2])
		}
		return EVal{V: out, T: rt}
	case "tfield":
		// tfield(t, "Year"|"Month"|"Day"|"Hour"|"Minute"|"Second"): calendar field of a time.Time value (as the code's t.Year() ...)
		argN(2)
		v := env.eval(x.Args[0])
		lit, ok := x.Args[1].(*ast.BasicLit)
		if !ok {
			env.fail("tfield needs a field name")
		}
		return EVal{V: Val{env.tr.timeField(strings.Trim(lit.Value, "\""), v.V)}, T: types.Typ[types.Int]}
	case "consumed":
		// consumed(r): total number of bytes r.Read has returned so far (ghost counter of an io.Reader)
		argN(1)
		v := env.eval(x.Args[0])
		cnt := f.Select(env.tr.get(env.curState(), "rcount"), env.identity(v))
		if !containsBound(cnt, map[*Term]bool{}) {
			env.tr.assume(f.And(f.SLe(f.BVi(64, 0), cnt), f.SLe(cnt, f.BVu(64, 1<<60))), "byte counters of readers are non-negative (and below 2^60)")
		}
		return EVal{V: Val{cnt}, T: types.Typ[types.Int64]}
	case "ro":
		argN(1)
		v := env.eval(x.Args[0])
		return env.boolVal(f.App("ro", SBool, env.identity(v)))
	case "uf":
		// uf("name", args...) : uninterpreted function over 64-bit values returning uint64
		if len(x.Args) < 1 {
			env.fail("uf needs a name")
		}
		nm := env.eval(x.Args[0])
		if nm.C == nil || nm.C.Kind() != constant.String {
			env.fail("uf name must be a string literal")
		}
		var as []*Term
		for _, a := range x.Args[1:] {
			v := env.defaultType(env.eval(a))
			for _, l := range v.V {
				if l.S.K == KBV && l.S.W < 64 {
					l = f.ZExt(l, 64)
				}
				as = append(as, l)
			}
		}
		return EVal{V: Val{f.App("uf_"+sanitize(constant.StringVal(nm.C)), S64, as...)}, T: types.Typ[types.Uint64]}
	case "ufb":
		nm := env.eval(x.Args[0])
		var as []*Term
		for _, a := range x.Args[1:] {
			v := env.defaultType(env.eval(a))
			as = append(as, v.V...)
		}
		return env.boolVal(f.App("ufb_"+sanitize(constant.StringVal(nm.C)), SBool, as...))
	case "crc32":
		argN(1)
		a := env.eval(x.Args[0])
		return EVal{V: Val{f.App("crc32", S32, env.byteArray(a), a.V[1], a.V[2])}, T: types.Typ[types.Uint32]}
	case "oldbytes":
		// oldbytes(b): the bytes b had on entry, as a ghost slice (use with predicates that also mention post-state values)
		argN(1)
		a := env.eval(x.Args[0])
		if !isSlice(a.T) {
			env.fail("oldbytes needs a slice")
		}
		st := env.old
		if st == nil {
			st = env.st
		}
		if a.Arr != nil {
			return a
		}
		return EVal{V: a.V, T: a.T, Arr: env.tr.inner(st, "8", a.V[0])}
	case "hdrcrc":
		// hdrcrc(h): CRC32 of h[0:92] computed with the CRC field (bytes 16..19) taken as zero
		argN(1)
		a := env.eval(x.Args[0])
		arr := env.byteArray(a)
		for k := int64(16); k < 20; k++ {
			arr = f.Store(arr, f.AddC(a.V[1], k), f.BVi(8, 0))
		}
		return EVal{V: Val{f.App("crc32", S32, arr, a.V[1], f.BVi(64, 92))}, T: types.Typ[types.Uint32]}
	case "mathint":
		argN(1)
		v := env.eval(x.Args[0])
		if v.C != nil {
			return env.asType(v, nil)
		}
		env.fail("mathint of a machine integer is not supported (no int2bv bridge)")
	case "min", "max":
		argN(2)
		a, b := env.unify(env.eval(x.Args[0]), env.eval(x.Args[1]))
		a, b = env.defaultType(a), env.defaultType(b)
		_, sg, _ := intLeaf(a.T)
		var lt *Term
		if sg {
			lt = f.SLt(a.V[0], b.V[0])
		} else {
			lt = f.ULt(a.V[0], b.V[0])
		}
		if name == "min" {
			return EVal{V: Val{f.Ite(lt, a.V[0], b.V[0])}, T: a.T}
		}
		return EVal{V: Val{f.Ite(lt, b.V[0], a.V[0])}, T: a.T}
	case "typeis":
		// typeis(x, T): dynamic type of interface x is T
		argN(2)
		v := env.eval(x.Args[0])
		t := env.lookupType(x.Args[1])
		if t == nil {
			env.fail("typeis: unknown type")
		}
		return env.boolVal(f.Eq(v.V[0], f.BVu(64, typeID(t))))
	case "unbox":
		// unbox(x, T): the value of dynamic type T held by interface x (meaningful only where typeis(x, T))
		argN(2)
		v := env.eval(x.Args[0])
		t := env.lookupType(x.Args[1])
		if t == nil {
			env.fail("unbox: unknown type")
		}
		if _, isPtr := t.Underlying().(*types.Pointer); isPtr {
			return EVal{V: Val{v.V[1], v.V[2]}, T: t}
		}
		return EVal{V: env.tr.loadLeaves(env.curState(), shape(t), v.V[1], v.V[2]), T: t}
	case "errhas":
		// errhas(err, T): errors.As(err, *T) would succeed (T occurs in err's chain)
		argN(2)
		v := env.eval(x.Args[0])
		t := env.lookupType(x.Args[1])
		if t == nil {
			env.fail("errhas: unknown type")
		}
		return env.boolVal(f.And(f.Neq(v.V[0], f.BVi(64, 0)), env.tr.errHas(t, v.V)))
	case "held":
		argN(1)
		v := env.lockIdent(x.Args[0])
		return env.boolVal(f.Select(env.tr.get(env.curState(), "locks"), v))
	}
	// predicate
	if p := env.tr.P.preds[env.pkg.Path()+"."+name]; p != nil {
		return env.applyPred(p, x.Args)
	}
	for k, p := range env.tr.P.preds {
		if strings.HasSuffix(k, "."+name) && strings.HasPrefix(k, "spec.") {
			return env.applyPred(p, x.Args)
		}
	}
	env.fail("unknown function %s in contract", name)
	return EVal{}
}

func (env *Env) applyPred(p *Pred, args []ast.Expr) EVal {
	if len(args) != len(p.Params) {
		env.fail("pred %s expects %d arguments", p.Name, len(p.Params))
	}
	sub := env.child()
	for i, a := range args {
		sub.vars[p.Params[i]] = env.eval(a)
	}
	// predicates are evaluated in the package that defines them
	if tp := env.tr.P.tpkgs[p.PkgPath]; tp != nil && tp.Types != nil {
		sub.pkg = tp.Types
	}
	sub.macros = map[string]ast.Expr{}
	sub.fr = nil
	return sub.eval(p.Body)
}

// identity of an object behind an interface / pointer (its region)
func (env *Env) identity(v EVal) *Term {
	if v.T == nil {
		env.fail("identity of ghost value")
	}
	if isIface(v.T) {
		return v.V[1]
	}
	if isPtr(v.T) {
		return v.V[0]
	}
	env.fail("dev()/ro() need an interface or pointer value, got %s", v.T)
	return nil
}

func (env *Env) lockIdent(e ast.Expr) *Term {
	// address of a mutex field: evaluate the selector up to the field and compute region+offset hash
	sel, ok := e.(*ast.SelectorExpr)
	if !ok {
		env.fail("held() needs a field selector")
	}
	base := env.eval(sel.X)
	pt, ok := base.T.Underlying().(*types.Pointer)
	if !ok {
		env.fail("held(): base must be a pointer")
	}
	st := pt.Elem().Underlying().(*types.Struct)
	for i := 0; i < st.NumFields(); i++ {
		if st.Field(i).Name() == sel.Sel.Name {
			return env.tr.lockID(base.V[0], env.f().AddC(base.V[1], int64(fieldOffset(st, i))))
		}
	}
	env.fail("held(): no field %s", sel.Sel.Name)
	return nil
}

func (env *Env) conversion(v EVal, t types.Type) EVal {
	f := env.f()
	if v.C != nil {
		return env.asType(v, t)
	}
	if v.Ghost != "" {
		env.fail("conversion of ghost value")
	}
	fw, fsg, fok := intLeaf(v.T)
	tw, _, tok := intLeaf(t)
	if fok && tok {
		_ = fw
		return EVal{V: Val{f.Ext(v.V[0], tw, fsg)}, T: t}
	}
	fl, tl := shape(v.T), shape(t)
	if len(fl) == len(tl) {
		ok := true
		for i := range fl {
			if fl[i].S != tl[i].S {
				ok = false
			}
		}
		if ok {
			return EVal{V: v.V, T: t}
		}
	}
	env.fail("unsupported conversion %s -> %s in contract", v.T, t)
	return v
}

func exprString(e ast.Expr) string {
	switch x := e.(type) {
	case *ast.Ident:
		return x.Name
	case *ast.SelectorExpr:
		return exprString(x.X) + "." + x.Sel.Name
	}
	return fmt.Sprintf("%T", e)
}
