// replay: package=util/bitmap
// function: bitmap.(*Bitmap).FreeList
// bound: every bitmap of 0, 1, 2 and 3 bytes (1 + 256 + 65536 + 16777216 inputs), checked against a bit-by-bit reference
// label: BOUNDED stand-in for a contract that did not discharge; not a proof
//
// Specification checked for each input: the list equals the list of maximal runs of zero bits, in increasing order
// (sound: every reported position is free; complete: every free position is reported; maximal and sorted).
package bitmap

import "testing"

func verifRefFreeList(bits []byte) []Contiguous {
	var out []Contiguous
	n := len(bits) * 8
	k := 0
	for k < n {
		if bits[k/8]>>(uint(k)%8)&1 == 1 {
			k++
			continue
		}
		s := k
		for k < n && bits[k/8]>>(uint(k)%8)&1 == 0 {
			k++
		}
		out = append(out, Contiguous{Position: s, Count: k - s})
	}
	return out
}

func verifSameList(a, b []Contiguous) bool {
	if len(a) != len(b) {
		return false
	}
	for i := range a {
		if a[i] != b[i] {
			return false
		}
	}
	return true
}

func TestVerifReplay_BoundedFreeList(t *testing.T) {
	for nbytes := 0; nbytes <= 3; nbytes++ {
		buf := make([]byte, nbytes)
		total := 1 << (8 * uint(nbytes))
		for v := 0; v < total; v++ {
			for i := 0; i < nbytes; i++ {
				buf[i] = byte(v >> (8 * uint(i)))
			}
			bm := FromBytes(buf)
			got := bm.FreeList()
			want := verifRefFreeList(buf)
			if !verifSameList(got, want) {
				t.Fatalf("VIOLATION C04: FreeList of bitmap % x = %v, want %v", buf, got, want)
			}
		}
	}
}
