; lemma: engine_difference_comparison   expect: unsat
; The engine adds these equivalences as assumptions wherever a signed 64-bit comparison has a difference p-q as an operand
; (vc.go subCmpLemma). They must be valid formulas: the negation is unsatisfiable. M is the engine's maxLen (2^48).
(declare-const p (_ BitVec 64))(declare-const q (_ BitVec 64))(declare-const c (_ BitVec 64))
(define-fun M () (_ BitVec 64) #x0001000000000000)
(define-fun in ((t (_ BitVec 64))) Bool (and (bvsle #x0000000000000000 t) (bvsle t M)))
(define-fun rng () Bool (and (in p) (in q) (in c) (bvsle q p)))
(assert rng)
(assert (not (and (= (bvslt (bvsub p q) c) (bvslt p (bvadd q c))) (= (bvsle (bvsub p q) c) (bvsle p (bvadd q c)))
 (= (bvslt c (bvsub p q)) (bvslt (bvadd q c) p)) (= (bvsle c (bvsub p q)) (bvsle (bvadd q c) p)))))
(check-sat)
