; lemma: engine_subslice_header   expect: unsat
; The engine states the header of s[lo:hi:mx] as a consequence of the bounds check and the operand's header (vc.go sliceOp).
; It must be a valid formula: the negation is unsatisfiable.
(declare-const lo (_ BitVec 64))(declare-const hi (_ BitVec 64))(declare-const mx (_ BitVec 64))(declare-const cp (_ BitVec 64))
(define-fun M () (_ BitVec 64) #x0001000000000000)
(assert (and (bvsle #x0000000000000000 lo) (bvsle lo hi) (bvsle hi mx) (bvsle mx cp) (bvsle cp M)))
(assert (not (and (bvsle #x0000000000000000 (bvsub hi lo)) (bvsle (bvsub hi lo) (bvsub mx lo)) (bvsle (bvsub mx lo) cp) (bvsle (bvsub hi lo) hi))))
(check-sat)
