; lemma: gpt_crash_atomic            expect: unsat
; property C09. The negated claim is asserted; `unsat` means: for every old table, every new table, every crash
; instant allowed by the Write contract and EVERY content of the torn region, Read returns the old or the new
; partition list and never an error.
;
; Each hypothesis is the abstract form of contract clauses that are discharged on the real code (obligation names):
;  (W-sides)   gpt.(*Table).Write/assert@Write$1#1.sa #2.sh #3.pa #4.ph  (epoch equalities: the backup array and header are
;              written and synced before the primary array/header are issued) + gpt.(*Table).Write$1/post#one,#sync,#ok
;              + effect#devwrite / unlisted-call-site obligations (no other device write)
;  (W-bytes)   gpt.(*Table).Write/assert@...#2.sh,#4.ph (hdrValid of both header buffers, fields of this table),
;              gpt.(*Table).toGPTBytes/post#crc,#magic,#lbas,#array
;  (R-primary) gpt.readPrimary/post#hdr,#arr,#io ; gpt.loadEntries/post#crc ; gpt.readGPTHeader/post#valid,#reject
;  (R-backup)  gpt.readBackup/post#hdr,#arr ; gpt.Read/post#primary,#backup,#arr, ret-assert#why,#which
; Environment assumptions (not provable from code, listed in the evidence):
;  (A1) CRC32 collision-freeness on the byte strings that occur: a torn array whose CRC equals the old (new) array's CRC
;       IS the old (new) array; a header sector that passes the header CRC is one of the headers that were written.
;  (A2) the write of one header sector is atomic.  (A3) Sync makes earlier writes durable before later ones are issued.
;  (A4) the device size seen by Read is the size given to Write (the backup is looked for where it was put).
(set-logic ALL)
(declare-sort Arr 0)      ; contents of an entry-array region
(declare-sort Hdr 0)      ; contents of a header sector
(declare-sort Parts 0)    ; a partition list
(declare-fun crcA (Arr) Int)
(declare-fun arrcrc (Hdr) Int)      ; the array CRC recorded in a header
(declare-fun valid (Hdr) Bool)      ; magic + header CRC + (for the backup) self-LBA test
(declare-fun parts (Arr) Parts)     ; what the decoder makes of an array (readPartitionArrayBytes)
; old and new images
(declare-const A0 Arr) (declare-const A1 Arr)
(declare-const hP0 Hdr) (declare-const hB0 Hdr) (declare-const hP1 Hdr) (declare-const hB1 Hdr)
(assert (and (valid hP0) (valid hB0) (= (arrcrc hP0) (crcA A0)) (= (arrcrc hB0) (crcA A0))))   ; the old table is valid in both copies
(assert (and (valid hP1) (valid hB1) (= (arrcrc hP1) (crcA A1)) (= (arrcrc hB1) (crcA A1))))   ; (W-bytes): what Write emits is valid
; crash state: header and array currently on each side
(declare-const hP Hdr) (declare-const aP Arr) (declare-const hB Hdr) (declare-const aB Arr)
(declare-const inflightB Bool)   ; true: the crash hit while the backup side was being written; false: while the primary side was
; (W-sides)+(A2)+(A3): one side is consistent, the other is an arbitrary mixture
(assert (=> inflightB (and (= hP hP0) (= aP A0) (or (= hB hB0) (= hB hB1)))))              ; primary untouched, backup torn (aB unconstrained)
(assert (=> (not inflightB) (and (= hB hB1) (= aB A1) (or (= hP hP0) (= hP hP1)))))        ; backup complete+synced, primary torn (aP unconstrained)
; (A1) collision freeness for the torn arrays
(assert (=> (= (crcA aP) (crcA A0)) (= aP A0)))
(assert (=> (= (crcA aP) (crcA A1)) (= aP A1)))
(assert (=> (= (crcA aB) (crcA A0)) (= aB A0)))
(assert (=> (= (crcA aB) (crcA A1)) (= aB A1)))
; (R-primary)/(R-backup): what Read returns
(define-fun okP () Bool (and (valid hP) (= (crcA aP) (arrcrc hP))))
(define-fun okB () Bool (and (valid hB) (= (crcA aB) (arrcrc hB))))
(define-fun readErr () Bool (and (not okP) (not okB)))
(define-fun readParts () Parts (ite okP (parts aP) (parts aB)))
; negated claim
(assert (or readErr (and (distinct readParts (parts A0)) (distinct readParts (parts A1)))))
(check-sat)
