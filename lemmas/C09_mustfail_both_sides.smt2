; lemma: gpt_crash_atomic WITHOUT side separation      expect: sat
; Vacuity guard: if writes to both copies may be in flight at the same instant (no sync between the sides), atomicity
; is lost — the solver must find a crash state. If this ever becomes unsat the lemma above proves nothing.
(set-logic ALL)
(declare-sort Arr 0) (declare-sort Hdr 0) (declare-sort Parts 0)
(declare-fun crcA (Arr) Int) (declare-fun arrcrc (Hdr) Int) (declare-fun valid (Hdr) Bool) (declare-fun parts (Arr) Parts)
(declare-const A0 Arr) (declare-const A1 Arr)
(declare-const hP0 Hdr) (declare-const hB0 Hdr) (declare-const hP1 Hdr) (declare-const hB1 Hdr)
(assert (and (valid hP0) (valid hB0) (= (arrcrc hP0) (crcA A0)) (= (arrcrc hB0) (crcA A0))))
(assert (and (valid hP1) (valid hB1) (= (arrcrc hP1) (crcA A1)) (= (arrcrc hB1) (crcA A1))))
(assert (distinct (crcA A0) (crcA A1)))
(declare-const hP Hdr) (declare-const aP Arr) (declare-const hB Hdr) (declare-const aB Arr)
(assert (and (or (= hP hP0) (= hP hP1)) (or (= hB hB0) (= hB hB1))))     ; both sides torn
(assert (=> (= (crcA aP) (crcA A0)) (= aP A0))) (assert (=> (= (crcA aP) (crcA A1)) (= aP A1)))
(assert (=> (= (crcA aB) (crcA A0)) (= aB A0))) (assert (=> (= (crcA aB) (crcA A1)) (= aB A1)))
(define-fun okP () Bool (and (valid hP) (= (crcA aP) (arrcrc hP))))
(define-fun okB () Bool (and (valid hB) (= (crcA aB) (arrcrc hB))))
(define-fun readErr () Bool (and (not okP) (not okB)))
(define-fun readParts () Parts (ite okP (parts aP) (parts aB)))
(assert (or readErr (and (distinct readParts (parts A0)) (distinct readParts (parts A1)))))
(check-sat)
